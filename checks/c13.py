"""C13 - VPK archives return exactly what was last written, across reopen.

Shape (B): explicit-state breadth-first search over operation histories of real `srctools.vpk.VPK`
objects working on real files in a tmpfs directory, for every archive configuration
(kind in {x_dir.vpk, single x.vpk} x dir_data_limit in {None, 0, 4, 1024} x arch_index in {None, 0, 1}).

A state *is* its history: it is reached by replaying the operation list on a fresh directory with fresh
VPK objects.  The alphabet is open('w'|'a') / add_file / new_file / FileInfo.write / del / write_dirfile /
reopen('r'|'a'|'w') (+ add_folder on read-only handles).  The reference model is two dicts name -> bytes:
`mem` (what the open handle should contain) and `disk` (what a fresh open should show: the contents at the
last successful write_dirfile(), or "no valid directory" right after a truncating open).

Oracle, evaluated in EVERY reached state (not only at leaves):
  * the executed operation behaved as the model says (succeeded / was rejected leaving everything unchanged);
  * live handle: set(filenames()) == mem keys, read() == mem bytes, verify();
  * fresh VPK(path, 'r') ("every state's reopen is checked", non-destructive): set(filenames()) == disk keys,
    each name resolves to the same FileInfo in string / 2-tuple / 3-tuple form, read() == bytes, verify(),
    verify_all();
  * an INDEPENDENT decoder of the VPK v1 directory (struct layout written here, zlib.crc32) run on the raw
    bytes on disk lists the same names, finds each file's bytes at (preload, archive index, offset, length)
    inside the files on disk, the stored CRC equals crc32(model bytes), and it agrees with the library's
    FileInfo fields;
  * every mutation (add_file, new_file, FileInfo.write, del, write_dirfile, add_folder) attempted on that fresh
    read-only handle raises and leaves the handle's contents and the files on disk unchanged.
States whose oracle failed are reported and not expanded.

The search is level-synchronous and parallel (core.par_map over chunks of the frontier), with GLOBAL
deduplication by canonical form between levels (see bfs() for the form and the same-futures argument).  Because
the alphabet (6 names x 3 forms x 9 sizes) is far too wide for one deep search, five lattices bound deviations
instead of depth (LATTICES): wide / deep / sizes / names / full.

Besides the BFS lattices, four input sweeps drive the same replay/oracle engine: every representable name
over a 4-character alphabet in all add-form x access-form combinations, every subset of the six menu names
with rotating boundary sizes (tree encoding), the same subsets with the archive index varying per file inside
one archive, and a CRC-32 collision overwrite.

Failure signatures (acc.fail sig) are coarse configuration/model facts a known-finding predicate can test:
where ('dir' | 'single-file'), limit_none, arch_index_none, size_ge_64k (largest file in the model),
beyond_limit (some file larger than dir_data_limit on a dir archive), same_crc_overwrite, plus exc/op for
unexpected exceptions.
"""
from __future__ import annotations

import functools
import hashlib
import itertools
import json
import os
import shutil
import struct
import tempfile
import time
import zlib

from srctools.vpk import VPK

from mcv import core

PROPERTY = 'C13'
LEVEL = 'model_checking'

KINDS = ('dir', 'single')
ARCH_PREFIX = 'sound_d'      # ends in characters of the '_dir' suffix: the prefix is what precedes the LAST '_dir', nothing more is stripped
LIMITS = (None, 0, 4, 1024)
INDEXES = (None, 0, 1)
CONFIGS = [(k, l, a) for k in KINDS for l in LIMITS for a in INDEXES]

NAMES = ['a/b.txt', 'a/c.txt', 'b.txt', 'a/b', '.cfg', 'd/e/f.tar.gz']
FORMS = ('s', '2', '3')
FORMS_X = FORMS + ('3e',)      # used by the name sweep only (the BFS rotates over the three documented forms)
# two different byte strings with the same CRC-32 (0x4ddb0c25)
CRC_TWINS = ('plumless', 'buckeroo')

VPK_SIG = 0x55AA1234
DIR_INDEX = 0x7FFF


# ---------------------------------------------------------------------------------------------
# names: independent splitting + representability rule

@functools.lru_cache(maxsize=None)
def split_name(s: str):
    """(folder, stem, ext) of a VPK path, or None when the name is not representable.

    Representable = survives the format's ext/folder/stem tree unchanged: non-empty, '/'-separated
    with no empty, '.' or '..' folder segment, no backslash or blank, and the last segment does
    not end in '.' (an empty extension *is* "no extension" in the tree, so `x.` aliases `x`)."""
    if not s or '\\' in s or ' ' in s:
        return None
    segs = s.split('/')
    if any(seg == '' for seg in segs):
        return None
    if any(seg in ('.', '..') for seg in segs[:-1]):
        return None
    base = segs[-1]
    folder = '/'.join(segs[:-1])
    if '.' in base:
        stem, ext = base.rsplit('.', 1)
        if ext == '':
            return None
    else:
        stem, ext = base, ''
    return folder, stem, ext


def join_name(folder: str, stem: str, ext: str) -> str:
    out = stem + ('.' + ext if ext else '')
    return folder + '/' + out if folder else out


@functools.lru_cache(maxsize=None)
def form_of(name: str, form: str):
    folder, stem, ext = split_name(name)
    if form == 's':
        return name
    if form == '2':
        return (folder, stem + ('.' + ext if ext else ''))
    if form == '3e' and ext:
        return (folder, stem + '.' + ext, '')       # 3-tuple whose extension slot is empty and whose name is dotted: same file
    return (folder, stem, ext)


# ---------------------------------------------------------------------------------------------
# data: position-dependent, distinct per (name, variant); a shorter size is a prefix of a longer one

_CONTENT: dict = {}


def content(name: str, variant: int, spec) -> bytes:
    if isinstance(spec, str):           # literal data ("lit:....")
        return spec[4:].encode('ascii')
    key = (name, variant)
    buf = _CONTENT.get(key)
    if buf is None or len(buf) < spec:
        buf = hashlib.shake_128(f'{name}#{variant}'.encode()).digest(max(spec, 70000))
        _CONTENT[key] = buf
    return buf[:spec]


# ---------------------------------------------------------------------------------------------
# reference model (never touches srctools)

class Model:
    def __init__(self) -> None:
        self.mode = None            # mode of the open handle
        self.mem: dict = {}         # name -> bytes in the open handle
        self.disk = None            # name -> bytes a fresh open must show; None = no valid directory on disk
        self.same_crc_overwrite = False     # some overwrite replaced data by different data of equal CRC-32

    def expect(self, op) -> tuple:
        """What must happen when `op` is executed now: ('ok',) | ('reject', why)."""
        k = op[0]
        if k in ('open', 'reopen', 'reload'):
            return ('ok',)
        if self.mode == 'r':
            return ('reject', 'readonly')
        if k in ('add', 'new'):
            return ('reject', 'exists') if op[1] in self.mem else ('ok',)
        if k in ('write', 'del'):
            return ('ok',) if op[1] in self.mem else ('reject', 'missing')
        return ('ok',)      # flush

    def apply(self, op) -> None:
        """Apply an operation that succeeded."""
        k = op[0]
        if k == 'reload':
            op = ['reopen', self.mode]
            k = 'reopen'
        if k in ('open', 'reopen'):
            m = op[1]
            self.mode = m
            if m == 'w' or self.disk is None:
                # 'w' truncates the directory file; 'a' on a missing file creates a blank one
                self.disk = None
                self.mem = {}
            else:
                self.mem = dict(self.disk)
        elif k == 'add':
            self.mem[op[1]] = content(op[1], op[4], op[3])
        elif k == 'new':
            self.mem[op[1]] = b''
        elif k == 'write':
            new = content(op[1], op[4], op[3])
            old = self.mem[op[1]]
            if new != old and zlib.crc32(new) == zlib.crc32(old):
                self.same_crc_overwrite = True
            self.mem[op[1]] = new
        elif k == 'del':
            del self.mem[op[1]]
        elif k == 'flush':
            self.disk = dict(self.mem)


def simulate(hist) -> Model:
    m = Model()
    for op in hist:
        if m.expect(op)[0] == 'ok':
            m.apply(op)
    return m


# ---------------------------------------------------------------------------------------------
# independent decoder of the VPK v1 directory

def decode_archive(workdir: str, kind: str):
    """Decode the directory file with nothing but struct; locate every file's bytes on disk.
    Returns (entries, problems); entries: name -> dict(crc, pre_len, arch, off, alen, data)."""
    problems: list = []
    fname = ARCH_PREFIX + '_dir.vpk' if kind == 'dir' else ARCH_PREFIX + '.vpk'
    with open(os.path.join(workdir, fname), 'rb') as f:
        raw = f.read()
    if len(raw) < 12:
        return {}, [f'directory file is {len(raw)} bytes (no header)']
    sig, ver, tree_len = struct.unpack_from('<III', raw, 0)
    if sig != VPK_SIG:
        problems.append(f'signature {sig:#x}')
    if ver != 1:
        problems.append(f'version {ver}')
    end = 12 + tree_len
    if end > len(raw):
        return {}, problems + [f'tree length {tree_len} exceeds file size {len(raw)}']
    pos = 12

    def cstr() -> str:
        nonlocal pos
        j = raw.find(b'\0', pos, end)
        if j < 0:
            raise ValueError(f'unterminated string at {pos}')
        s = raw[pos:j].decode('latin-1')
        pos = j + 1
        return s

    def blank(s: str) -> str:
        return '' if s == ' ' else s

    entries: dict = {}
    archives: dict = {}
    try:
        while True:
            ext = cstr()
            if ext == '':
                break
            while True:
                folder = cstr()
                if folder == '':
                    break
                while True:
                    stem = cstr()
                    if stem == '':
                        break
                    if pos + 18 > end:
                        raise ValueError(f'entry record at {pos} crosses the end of the tree')
                    crc, pre_len, arch, off, alen, term = struct.unpack_from('<IHHIIH', raw, pos)
                    pos += 18
                    if term != 0xFFFF:
                        problems.append(f'terminator {term:#x} at {pos - 2}')
                    if pos + pre_len > end:
                        raise ValueError(f'preload of {pre_len} bytes at {pos} crosses the end of the tree')
                    pre = raw[pos:pos + pre_len]
                    pos += pre_len
                    name = join_name(blank(folder), blank(stem), blank(ext))
                    if name in entries:
                        problems.append(f'duplicate entry {name!r}')
                    body = b''
                    if alen:
                        if arch == DIR_INDEX:
                            footer = raw[end:]
                            if off + alen > len(footer):
                                problems.append(f'{name!r}: bytes [{off}:{off + alen}] lie outside the '
                                                f'{len(footer)}-byte data section after the tree')
                            body = footer[off:off + alen]
                        elif kind != 'dir':
                            problems.append(f'{name!r}: single-file archive refers to numbered archive {arch}')
                        else:
                            if arch not in archives:
                                p = os.path.join(workdir, f'{ARCH_PREFIX}_{arch:03}.vpk')
                                try:
                                    with open(p, 'rb') as af:
                                        archives[arch] = af.read()
                                except FileNotFoundError:
                                    archives[arch] = None
                            blob = archives[arch]
                            if blob is None:
                                problems.append(f'{name!r}: numbered archive {arch} does not exist')
                            else:
                                if off + alen > len(blob):
                                    problems.append(f'{name!r}: bytes [{off}:{off + alen}] lie outside archive '
                                                    f'{arch} ({len(blob)} bytes)')
                                body = blob[off:off + alen]
                    entries[name] = {'crc': crc, 'pre_len': pre_len, 'arch': arch, 'off': off, 'alen': alen,
                                     'data': pre + body}
    except (ValueError, struct.error) as exc:
        problems.append(f'tree does not decode: {exc}')
        return entries, problems
    if pos != end:
        problems.append(f'tree length field says {tree_len} but the tree occupies {pos - 12} bytes')
    return entries, problems


# ---------------------------------------------------------------------------------------------
# helpers looking at the real objects

BYSTANDERS = {ARCH_PREFIX + '_extra_dir.vpk': b'\x34\x12\xaa\x55' + b'neighbour directory', ARCH_PREFIX + '_extra_000.vpk': b'neighbour data 0',
              ARCH_PREFIX + '_patch.vpk': b'\x34\x12\xaa\x55single-file neighbour', ARCH_PREFIX + 'x_dir.vpk': b'longer prefix', ARCH_PREFIX + '_000.bak': b'a backup',
              'other_999.vpk': b'unrelated'}


def vpk_path(workdir: str, kind: str) -> str:
    return os.path.join(workdir, ARCH_PREFIX + '_dir.vpk' if kind == 'dir' else ARCH_PREFIX + '.vpk')


def disk_digest(workdir: str) -> str:
    h = hashlib.sha1()
    for fn in sorted(os.listdir(workdir)):
        with open(os.path.join(workdir, fn), 'rb') as f:
            blob = f.read()
        h.update(f'{fn}:{len(blob)}:'.encode())
        h.update(blob)
    return h.hexdigest()


def handle_fingerprint(h) -> list:
    """Every field of the live object that its future behaviour can depend on (dedup only, never an oracle)."""
    rows = []
    for info in h:
        rows.append([info.filename, info.crc, info.arch_index, info.offset, info.arch_len,
                     hashlib.sha1(info.start_data).hexdigest()])
    rows.sort(key=core.jdump)
    return [h.mode.value, repr(h.dir_limit), h.version, len(h.footer_data), zlib.crc32(h.footer_data), rows]


def relation(got: bytes, want: bytes) -> str:
    if got == want + want and want:
        return 'doubled'
    if len(got) < len(want) and want.startswith(got):
        return 'truncated'
    if len(got) > len(want) and got.startswith(want):
        return 'extended'
    if len(got) == len(want):
        return 'same_length_wrong_bytes'
    return 'other'


def bdesc(b: bytes) -> str:
    return f'{len(b)} bytes crc={zlib.crc32(b):08x}'


def placement(e: dict) -> str:
    if e['pre_len'] + e['alen'] == 0:
        return 'E'
    s = 'P' if e['pre_len'] else ''
    if e['alen']:
        s += 'F' if e['arch'] == DIR_INDEX else f'A{e["arch"]}'
    return s


def view_of(h) -> dict:
    """Observable content of a handle: name -> bytes (or an exception marker)."""
    out = {}
    for fn in sorted(set(h.filenames())):
        try:
            out[fn] = h[fn].read()
        except Exception as exc:  # noqa: BLE001
            out[fn] = f'!{type(exc).__name__}'
    return out


# ---------------------------------------------------------------------------------------------
# one history on the real code

class Runner:
    def __init__(self, acc: core.Acc, workdir: str, folder_src: str):
        self.acc = acc
        self.workdir = workdir
        self.folder_src = folder_src
        self.ai_none = False        # the current history passes arch_index=None somewhere

    def sig(self, cfg, model: Model, **extra) -> dict:
        kind, limit, ai = cfg
        sizes = [len(v) for v in model.mem.values()]
        if model.disk:
            sizes += [len(v) for v in model.disk.values()]
        mx = max(sizes, default=0)
        beyond = False
        if kind == 'dir' and limit is not None:
            beyond = mx > limit
        # coarse and stable: which storage paths the history can have used
        s = {'where': 'dir' if kind == 'dir' else 'single-file', 'limit_none': limit is None,
             'arch_index_none': self.ai_none, 'size_ge_64k': mx >= 65536, 'beyond_limit': beyond,
             'same_crc_overwrite': model.same_crc_overwrite}
        s.update(extra)
        return s

    def real_op(self, h, cfg, op):
        k = op[0]
        # the archive index is a configuration parameter; an optional 6th field of add/write overrides it
        ai = op[5] if len(op) > 5 else cfg[2]
        if k == 'add':
            h.add_file(form_of(op[1], op[2]), content(op[1], op[4], op[3]), arch_index=ai)
        elif k == 'new':
            h.new_file(form_of(op[1], op[2]))
        elif k == 'write':
            h[form_of(op[1], op[2])].write(content(op[1], op[4], op[3]), ai)
        elif k == 'del':
            del h[form_of(op[1], op[2])]
        elif k == 'flush':
            if len(op) > 1 and op[1] == 'ctx':
                with h:          # the context-manager form: leaving the block writes the directory
                    pass
            else:
                h.write_dirfile()
        elif k == 'addfolder':
            h.add_folder(self.folder_src)
        else:
            raise AssertionError(op)

    def run(self, cfg, hist, check_from=None):
        """Replay `hist`; full oracle after the steps >= check_from (default: the last step only - in the
        BFS every proper prefix was itself evaluated as a state).  Returns (canon, ok, summary)."""
        acc = self.acc
        kind, limit, ai = cfg
        wd = self.workdir
        for fn in os.listdir(wd):
            os.remove(os.path.join(wd, fn))
        # other archives live in the same folder; their names extend this archive's prefix (pak01 next to pak01_extra): no
        # operation on this archive touches them
        for fn, blob in BYSTANDERS.items():
            with open(os.path.join(wd, fn), 'wb') as f:
                f.write(blob)
        case = {'cfg': [kind, limit, ai], 'hist': [list(o) for o in hist]}
        self.ai_none = ai is None or any(len(o) > 5 and o[5] is None for o in hist)
        path = vpk_path(wd, kind)
        model = Model()
        h = None
        n = len(hist)
        if check_from is None:
            check_from = n - 1
        nfail0 = sum(acc.fail_counts.values())
        result = 'ok'
        for i, op in enumerate(hist):
            checked = i >= check_from
            exp = model.expect(op)
            k = op[0]
            if k == 'reload':
                # load_dirfile() on the live handle: "erases all changes made to the object" = a reopen in the same mode
                try:
                    h.load_dirfile()
                except Exception as exc:  # noqa: BLE001
                    acc.fail('open_raised', case, f'cfg={cfg} history={hist}\n step {i} {op}: load_dirfile() raised {type(exc).__name__}: {exc}',
                             **self.sig(cfg, model, exc=type(exc).__name__, mode=model.mode))
                    return None, False, ('open_raised',)
                model.apply(['reopen', model.mode])
                result = 'ok'
            elif k in ('open', 'reopen'):
                h = None
                try:
                    h = VPK(path, mode=op[1], dir_data_limit=limit)
                except Exception as exc:  # noqa: BLE001
                    acc.fail('open_raised', case, f'cfg={cfg} history={hist}\n step {i} {op}: VPK(..., mode={op[1]!r}) '
                             f'raised {type(exc).__name__}: {exc} although a valid directory was written',
                             **self.sig(cfg, model, exc=type(exc).__name__, mode=op[1]))
                    return None, False, ('open_raised',)
                model.apply(op)
                result = 'ok'
            else:
                before = None
                if exp[0] == 'reject' and checked:
                    before = (disk_digest(wd), view_of(h))
                try:
                    self.real_op(h, cfg, op)
                    raised = None
                except Exception as exc:  # noqa: BLE001
                    raised = exc
                if exp[0] == 'ok':
                    if raised is not None:
                        acc.fail('op_raised', case,
                                 f'cfg={cfg} history={hist}\n step {i} {op} on a {model.mode!r} archive raised '
                                 f'{type(raised).__name__}: {raised}',
                                 **self.sig(cfg, model, exc=type(raised).__name__, op=k))
                        return None, False, ('op_raised', k, type(raised).__name__)
                    model.apply(op)
                    result = 'ok'
                else:
                    why = exp[1]
                    if raised is None:
                        kindname = 'readonly_accepted' if why == 'readonly' else 'expected_error_missing'
                        acc.fail(kindname, case,
                                 f'cfg={cfg} history={hist}\n step {i} {op}: expected rejection ({why}) but the call returned',
                                 **self.sig(cfg, model, op=k, why=why))
                        return None, False, (kindname, k)
                    result = 'rejected:' + why + ':' + type(raised).__name__
                    if before is not None:
                        after = (disk_digest(wd), view_of(h))
                        if after != before:
                            what = 'files on disk' if after[0] != before[0] else 'handle contents'
                            acc.fail('readonly_state_changed' if why == 'readonly' else 'rejected_op_changed_state', case,
                                     f'cfg={cfg} history={hist}\n step {i} {op} was rejected ({type(raised).__name__}) '
                                     f'but changed the {what}', **self.sig(cfg, model, op=k, why=why))
            if checked and i < n - 1:
                self.check_state(cfg, hist[:i + 1], case, model, h)
        summary = self.check_state(cfg, hist, case, model, h)
        ok = sum(acc.fail_counts.values()) == nfail0
        canon = core.digest([list(cfg), model.mode,
                             sorted((k, hashlib.sha1(v).hexdigest()) for k, v in model.mem.items()),
                             None if model.disk is None else
                             sorted((k, hashlib.sha1(v).hexdigest()) for k, v in model.disk.items()),
                             disk_digest(wd), handle_fingerprint(h)])
        return canon, ok, (result,) + summary

    def readonly_attempts(self, cfg, case, where, model: Model, r) -> None:
        acc = self.acc
        disk = model.disk
        present = sorted(disk)
        absent = [nm for nm in NAMES if nm not in disk] or ['zz/new.bin']
        k = len(present) % 3
        attempts = [
            ('add_file', lambda: r.add_file(form_of(absent[0], FORMS[k]), b'12345', arch_index=cfg[2])),
            ('new_file', lambda: r.new_file(form_of(absent[0], FORMS[(k + 1) % 3]))),
            ('write_dirfile', lambda: r.write_dirfile()),
            ('add_folder', lambda: r.add_folder(self.folder_src)),
        ]
        if present:
            tgt = present[k % len(present)]
            attempts += [
                ('FileInfo.write', lambda: r[form_of(tgt, FORMS[(k + 2) % 3])].write(b'other data', cfg[2])),
                ('FileInfo.write(same data)', lambda: r[tgt].write(disk[tgt], cfg[2])),
                ('del', lambda: r.__delitem__(form_of(tgt, FORMS[k]))),
                ('add_file(existing)', lambda: r.add_file(tgt, b'12345', arch_index=cfg[2])),
            ]
        before = disk_digest(self.workdir)
        before_view = view_of(r)
        for label, fn in attempts:
            try:
                fn()
            except Exception:  # noqa: BLE001 - any exception is a rejection
                continue
            if label.endswith('(same data)'):
                continue    # rewriting identical bytes changes nothing: only "state unchanged" is demanded of it
            acc.fail('readonly_accepted', case, where + f"{label} on a freshly opened mode='r' archive returned "
                     f'without raising', **self.sig(cfg, model, op=label, why='readonly'))
        after_view = view_of(r)
        if disk_digest(self.workdir) != before:
            acc.fail('readonly_state_changed', case, where + "rejected mutations on a mode='r' archive changed the "
                     'files on disk', **self.sig(cfg, model, op='any', why='readonly'))
        elif after_view != before_view:
            def show(v: dict) -> dict:
                return {k2: (bdesc(x) if isinstance(x, bytes) else x) for k2, x in v.items()}
            acc.fail('readonly_state_changed', case, where + "the rejected mutations changed what the mode='r' handle "
                     f'lists/reads: before {show(before_view)}, after {show(after_view)}',
                     **self.sig(cfg, model, op='any', why='readonly'))

    # -- the state oracle ---------------------------------------------------------------------
    def check_state(self, cfg, hist, case, model: Model, h) -> tuple:
        acc = self.acc
        kind, limit, ai = cfg
        wd = self.workdir
        where = f'cfg={cfg} history={list(hist)}\n '

        # (0) the neighbours
        for fn, blob in BYSTANDERS.items():
            try:
                with open(os.path.join(wd, fn), 'rb') as f:
                    now = f.read()
            except OSError:
                now = None
            if now != blob:
                acc.fail('unrelated_file_touched', case, where + f'the neighbouring file {fn} (another archive in the same folder) '
                         f'{"has vanished" if now is None else "was modified"}', **self.sig(cfg, model))
                break

        # (1) live handle against `mem`
        try:
            names = list(h.filenames())
        except Exception as exc:  # noqa: BLE001
            names = None
            acc.fail('live_listing_raised', case, where + f'filenames() raised {type(exc).__name__}: {exc}',
                     **self.sig(cfg, model))
        if names is not None:
            if sorted(names) != sorted(model.mem):
                acc.fail('live_listing_mismatch', case,
                         where + f'open {model.mode!r} handle lists {sorted(names)}, model has {sorted(model.mem)}',
                         **self.sig(cfg, model))
            else:
                for nm in sorted(model.mem):
                    want = model.mem[nm]
                    try:
                        info = h[nm]
                        got = info.read()
                        ver = info.verify()
                    except Exception as exc:  # noqa: BLE001
                        acc.fail('live_read_raised', case, where + f'{nm!r}: read/verify on the open handle raised '
                                 f'{type(exc).__name__}: {exc}', **self.sig(cfg, model))
                        continue
                    if got != want:
                        acc.fail('live_read_mismatch', case,
                                 where + f'open {model.mode!r} handle: {nm!r} reads {bdesc(got)}, last written {bdesc(want)} '
                                 f'[{relation(got, want)}]', **self.sig(cfg, model))
                    elif not ver:
                        acc.fail('live_verify_failed', case, where + f'open {model.mode!r} handle: {nm!r} reads correctly '
                                 f'but verify() is False', **self.sig(cfg, model))

        # (2) a fresh read-only open against `disk`
        if model.disk is None:
            return ('no_valid_dir', model.mode)
        disk = model.disk
        try:
            r = VPK(vpk_path(wd, kind), mode='r')
        except Exception as exc:  # noqa: BLE001
            acc.fail('reopen_raised', case, where + f"VPK(path, mode='r') raised {type(exc).__name__}: {exc}",
                     **self.sig(cfg, model, exc=type(exc).__name__))
            return ('reopen_raised',)
        listed = list(r.filenames())
        listing_ok = sorted(listed) == sorted(disk)
        if not listing_ok:
            acc.fail('listing_mismatch', case,
                     where + f'reopened archive lists {sorted(listed)}, should be {sorted(disk)}',
                     **self.sig(cfg, model))
        else:
            # the other listing forms agree: iteration, fileinfos(), len(), folders()
            try:
                alt = {'iter': sorted(f.filename for f in r), 'fileinfos': sorted(f.filename for f in r.fileinfos()),
                       'len': len(r), 'folders': sorted(set(r.folders()))}
                want_alt = {'iter': sorted(disk), 'fileinfos': sorted(disk), 'len': len(disk),
                            'folders': sorted({split_name(nm)[0] for nm in disk})}
                # per-extension listings partition the archive ('' is the extension of extension-less names; one nothing carries lists nothing)
                for e in sorted({split_name(nm)[2] for nm in disk} | {'', 'nope'}):
                    have = sorted(nm for nm in disk if split_name(nm)[2] == e)
                    alt[f'fileinfos(ext={e!r})'] = sorted(f.filename for f in r.fileinfos(ext=e))
                    want_alt[f'fileinfos(ext={e!r})'] = have
                    alt[f'folders(ext={e!r})'] = sorted(r.folders(ext=e))
                    want_alt[f'folders(ext={e!r})'] = sorted({split_name(nm)[0] for nm in have})
                    if e:
                        alt[f'filenames(ext={e!r})'] = sorted(r.filenames(ext=e))
                        want_alt[f'filenames(ext={e!r})'] = have
                if alt != want_alt:
                    bad_k = next(k2 for k2 in alt if alt[k2] != want_alt[k2])
                    acc.fail('listing_mismatch', case, where + f'reopened archive: {bad_k} gives {alt[bad_k]}, filenames() gives {sorted(listed)}',
                             **self.sig(cfg, model, form=bad_k))
            except Exception as exc:  # noqa: BLE001
                acc.fail('listing_mismatch', case, where + f'listing the reopened archive raised {type(exc).__name__}: {exc}', **self.sig(cfg, model, form='raised'))
        lib_fields = {}
        all_verify = True
        for nm in sorted(disk):
            want = disk[nm]
            infos = []
            for fm in FORMS:
                key = form_of(nm, fm)
                try:
                    present = key in r
                    info = r[key] if present else None
                except Exception as exc:  # noqa: BLE001
                    present, info = False, None
                    acc.fail('name_form_raised', case, where + f'lookup of {key!r} raised {type(exc).__name__}: {exc}',
                             **self.sig(cfg, model, form=fm))
                infos.append((present, info))
            if listing_ok and (not all(p for p, _ in infos) or any(inf is not infos[0][1] for _, inf in infos)):
                acc.fail('name_form_mismatch', case,
                         where + f'{nm!r}: string/2-tuple/3-tuple lookups give present={[p for p, _ in infos]}, '
                         f'same object={[inf is infos[0][1] for _, inf in infos]}', **self.sig(cfg, model))
            info = infos[0][1]
            if info is None:
                continue
            try:
                got = info.read()
                ver = info.verify()
            except Exception as exc:  # noqa: BLE001
                acc.fail('read_raised', case, where + f'{nm!r}: read/verify after reopen raised '
                         f'{type(exc).__name__}: {exc}', **self.sig(cfg, model, exc=type(exc).__name__))
                all_verify = False
                continue
            if info.filename != nm:
                acc.fail('name_form_mismatch', case, where + f'{nm!r} resolves to an entry named {info.filename!r}',
                         **self.sig(cfg, model))
            if got != want:
                acc.fail('read_mismatch', case,
                         where + f'after reopen {nm!r} reads {bdesc(got)}, last written {bdesc(want)} '
                         f'[{relation(got, want)}]', **self.sig(cfg, model))
            if not ver:
                all_verify = False
                acc.fail('verify_failed', case,
                         where + f'after reopen {nm!r}: verify() is False (data read {"matches" if got == want else "differs"})',
                         **self.sig(cfg, model))
            lib_fields[nm] = (info.crc, len(info.start_data), info.arch_index, info.offset, info.arch_len)
        # names of the menu that must be absent
        for nm in NAMES:
            if nm not in disk:
                if any(form_of(nm, fm) in r for fm in FORMS):
                    acc.fail('phantom_name', case, where + f'{nm!r} is reported present after reopen but was never '
                             f'written / was deleted', **self.sig(cfg, model))
        # the same archive read through the file-system wrapper (VPKFileSystem / get_filesystem): same names, same bytes
        if listing_ok and disk:
            try:
                from srctools.filesys import VPKFileSystem
                vfs = VPKFileSystem(vpk_path(wd, kind))
                for nm in sorted(disk):
                    with vfs[nm].open_bin() as fb:
                        got_fs = fb.read()
                    if got_fs != disk[nm]:
                        acc.fail('read_mismatch', case, where + f'through VPKFileSystem {nm!r} reads {bdesc(got_fs)}, last written {bdesc(disk[nm])} '
                                 f'[{relation(got_fs, disk[nm])}]', **self.sig(cfg, model, via='filesys'))
                        break
            except Exception as exc:  # noqa: BLE001
                acc.fail('read_raised', case, where + f'reading through VPKFileSystem raised {type(exc).__name__}: {exc}',
                         **self.sig(cfg, model, exc=type(exc).__name__, via='filesys'))
        try:
            va = r.verify_all()
        except Exception as exc:  # noqa: BLE001
            va = None
            acc.fail('read_raised', case, where + f'verify_all() raised {type(exc).__name__}: {exc}',
                     **self.sig(cfg, model, exc=type(exc).__name__))
        if va is not None and listing_ok and va != all_verify:
            acc.fail('verify_all_inconsistent', case, where + f'verify_all()={va} but per-file verify() all-true={all_verify}',
                     **self.sig(cfg, model))

        # (2b) the read-only handle must reject every mutation and stay as it is (files on disk included)
        if listing_ok:
            self.readonly_attempts(cfg, case, where, model, r)

        # (3) independent decoder on the raw bytes
        entries, problems = decode_archive(wd, kind)
        for p in problems:
            acc.fail('decode_structure', case, where + 'independent decoder: ' + p, **self.sig(cfg, model))
        if not problems:
            if sorted(entries) != sorted(disk):
                acc.fail('decode_listing_mismatch', case,
                         where + f'directory on disk holds {sorted(entries)}, should be {sorted(disk)}',
                         **self.sig(cfg, model))
            for nm in sorted(disk):
                e = entries.get(nm)
                if e is None:
                    continue
                want = disk[nm]
                if e['data'] != want:
                    acc.fail('decode_data_mismatch', case,
                             where + f'{nm!r}: bytes located on disk (preload {e["pre_len"]}, archive {e["arch"]:#x}, '
                             f'offset {e["off"]}, length {e["alen"]}) are {bdesc(e["data"])}, last written {bdesc(want)} '
                             f'[{relation(e["data"], want)}]', **self.sig(cfg, model))
                if e['crc'] != zlib.crc32(want):
                    acc.fail('decode_crc_mismatch', case,
                             where + f'{nm!r}: stored CRC {e["crc"]:08x}, crc32 of the data last written {zlib.crc32(want):08x}',
                             **self.sig(cfg, model))
                lf = lib_fields.get(nm)
                if lf is not None:
                    mine = (e['crc'], e['pre_len'], None if e['arch'] == DIR_INDEX else e['arch'],
                            e['off'] if e['alen'] else 0, e['alen'])
                    theirs = (lf[0], lf[1], lf[2], lf[3] if lf[4] else 0, lf[4])
                    if e['alen'] == 0:      # the index of a file without archive part is not meaningful
                        mine = mine[:2] + (None,) + mine[3:]
                        theirs = theirs[:2] + (None,) + theirs[3:]
                    if mine != theirs:
                        acc.fail('decode_fields_disagree', case,
                                 where + f'{nm!r}: (crc, preload, index, offset, length) decoded {mine}, library {theirs}',
                                 **self.sig(cfg, model))
        places = tuple(sorted({placement(e) for e in entries.values()}))
        return ('probe', model.mode, len(disk), places)


# ---------------------------------------------------------------------------------------------
# alphabet

def sizes_for(limit, level: str) -> list:
    lim = limit if limit is not None else None
    if level == 'full':
        base = [0, 1, 65535, 65536, 70000, 300000]
        if lim:
            base += [lim - 1, lim, lim + 1]
        return sorted(set(base))
    if level == 'edge':
        if not lim:
            return [0, 1, 65535, 65536]
        return [0, lim, lim + 1, 65536]
    if level == 'two':
        return [(lim or 0) + 1, 65536]
    if level == 'one':
        return [(lim or 0) + 1]
    raise AssertionError(level)


def ops_for(model: Model, menu: dict, limit) -> list:
    """Every operation offered in a state (a function of the reference model only)."""
    names = menu['names']
    sizes = sizes_for(limit, menu['sizes'])
    errors = menu['errors']
    out = []
    if model.mode == 'r':
        # every mutation must be rejected; one representative argument each
        present = sorted(model.mem)
        nm_new = next((x for x in names if x not in model.mem), names[0])
        out.append(('add', nm_new, 's', 5, 0))
        out.append(('new', nm_new, '2'))
        if present:
            out.append(('write', present[0], '3', 5, 1))
            out.append(('del', present[0], 's'))
        out.append(('flush',))
        out.append(('addfolder',))
    else:
        for i, nm in enumerate(names):
            if nm not in model.mem:
                for s in sizes:
                    out.append(('add', nm, FORMS[i % 3], s, 0))
                if menu['new']:
                    out.append(('new', nm, FORMS[(i + 1) % 3]))
                if errors:
                    out.append(('write', nm, FORMS[i % 3], sizes[-1], 1))
                    out.append(('del', nm, FORMS[(i + 1) % 3]))
            else:
                for s in sizes:
                    out.append(('write', nm, FORMS[(i + 1) % 3], s, 1))
                out.append(('del', nm, FORMS[(i + 2) % 3]))
                if errors:
                    out.append(('add', nm, FORMS[(i + 2) % 3], sizes[-1], 0))
        out.append(('flush',))
    if model.disk is not None:
        if menu['ro']:
            out.append(('reopen', 'r'))
        out.append(('reopen', 'a'))
        if model.mode != 'w' and menu.get('reload'):
            out.append(('reload',))
    if model.mode == 'w' and menu.get('reload'):
        out.append(('reload',))          # in write mode this starts over with an empty archive, on the same object
    out.append(('reopen', 'w'))
    return out


LATTICES = {
    # name: (menu, initial open modes, quick depth, thorough depth); depth counts operations after the initial open.
    # wide : boundary sizes, three names sharing extension / folder, every rejected operation, read-only handles
    'wide': ({'names': NAMES[:3], 'sizes': 'edge', 'errors': True, 'new': True, 'ro': True}, ('w', 'a'), 3, 4),
    # deep : long histories through flush / reopen 'a' / reopen 'w' with two files that both have an archive part
    'deep': ({'names': NAMES[:2], 'sizes': 'two', 'errors': False, 'new': True, 'ro': False, 'reload': True}, ('w',), 5, 6),
    # sizes: every ordered pair (triple) of sizes of the full menu on two names
    'sizes': ({'names': NAMES[:2], 'sizes': 'full', 'errors': False, 'new': False, 'ro': False}, ('w',), 2, 3),
    # names: all six names (no extension, empty stem, nested folders): directory tree clean-up on delete
    'names': ({'names': NAMES, 'sizes': 'one', 'errors': False, 'new': False, 'ro': False}, ('w',), 3, 5),
    # full : all names x all sizes x all rejected operations, shallow
    'full': ({'names': NAMES, 'sizes': 'full', 'errors': True, 'new': True, 'ro': True}, ('w', 'a'), 1, 2),
}


# ---------------------------------------------------------------------------------------------
# shards

_SCRATCH = None


def _workdir() -> tuple:
    base = os.path.join(_SCRATCH, f'w{os.getpid()}')
    wd = os.path.join(base, 'arch')
    src = os.path.join(base, 'src')
    if not os.path.isdir(wd):
        os.makedirs(wd)
        os.makedirs(os.path.join(src, 'sub'))
        with open(os.path.join(src, 'sub', 'f.txt'), 'wb') as f:
            f.write(b'folder file')
    return wd, src


def shard(spec) -> core.Acc:
    acc = core.Acc()
    wd, src = _workdir()
    runner = Runner(acc, wd, src)
    what = spec[0]
    if what == 'bfs':
        _, lattice, level, idx, items, outfile, last = spec
        menu = LATTICES[lattice][0]
        children = {}
        for ci, hist in items:
            cfg = CONFIGS[ci]
            hist = [tuple(o) for o in hist]
            if level == 0:
                todo = [hist]
            else:
                model = simulate(hist)
                todo = [hist + [op] for op in ops_for(model, menu, cfg[1])]
            for child in todo:
                canon, ok, summary = runner.run(cfg, child)
                acc.evaluations += 1
                acc.count('transitions_' + lattice)
                if summary[1:2] == ('probe',) and summary[3] > 0:
                    acc.nontrivial += 1
                acc.outcome((cfg[0], child[-1][0]) + tuple(summary))
                if canon is None:
                    canon = 'FAILED:' + core.digest([ci, child])
                if canon not in children:
                    children[canon] = [ci, child, ok]
        if last and children:
            ci, child, _ok = children[min(children)]
            acc.sample({'lattice': lattice, 'cfg': list(CONFIGS[ci]), 'history': [list(o) for o in child]}, 1)
        with open(outfile, 'w') as f:
            if last:
                json.dump({'canons': sorted(children)}, f)
            else:
                json.dump({'children': [[c, v[0], v[1], v[2]] for c, v in sorted(children.items())]}, f)
    elif what == 'sweep':
        _, label, items = spec
        for ci, hist in items:
            cfg = CONFIGS[ci]
            hist = [tuple(o) for o in hist]
            canon, ok, summary = runner.run(cfg, hist, check_from=0)
            acc.evaluations += 1
            acc.count('histories_' + label)
            if summary[1:2] == ('probe',) and summary[3] > 0:
                acc.nontrivial += 1
            acc.outcome((label, cfg[0]) + tuple(summary))
        if items:
            acc.sample({'sweep': label, 'cfg': list(CONFIGS[items[0][0]]), 'history': items[0][1]}, 1)
    return acc


# ---------------------------------------------------------------------------------------------
# explorer

def bfs(ctx: core.Ctx, lattice: str, roots: tuple, depth: int, deadline: float, stats: dict) -> None:
    """Level-synchronous parallel BFS with global deduplication.

    Canonical form of a state = digest of (configuration, handle mode, reference model `mem`, reference model
    `disk`, every byte of every file in the state's directory, every field of the live VPK object: per file
    crc/arch_index/offset/arch_len/preload bytes, footer_data, mode, dir_limit, version).
    Why merged states have the same futures: the implementation is a deterministic function of its object
    fields and the files it opens, and all of them are in the digest (only the insertion order of the
    name dictionaries is dropped - it influences the order of filenames(), which the oracle compares as a set,
    and write_dirfile() sorts).  The oracle's expectations are a function of (mem, disk, mode), also in the
    digest.  Hence two histories with equal canonical form accept the same continuations with the same
    verdicts, and only the first (shortest, then enumeration order) is expanded.  States with a failed
    oracle are reported and not expanded (their continuation has no defined expectation)."""
    nw = core.workers()
    visited: set = set()
    frontier = [[ci, [['open', m]]] for ci in range(len(CONFIGS)) for m in roots]
    outdir = os.path.join(ctx.scratch, f'bfs_{lattice}')
    os.makedirs(outdir, exist_ok=True)
    per_level = []
    for level in range(0, depth + 1):
        last = level == depth
        k = ctx.seed % max(1, len(frontier))
        items = frontier[k:] + frontier[:k]
        size = max(1, min(64, -(-len(items) // (nw * 8))))
        shards = []
        for idx, chunk in enumerate(core.chunked(items, size)):
            shards.append(('bfs', lattice, level, idx, chunk, os.path.join(outdir, f'L{level}_{idx}.json'), last))
        complete = core.par_map(shard, shards, ctx.acc, deadline=deadline)
        new_frontier = []
        new_states = 0
        seen_level = 0
        for sp in shards:
            try:
                with open(sp[5]) as f:
                    data = json.load(f)
            except FileNotFoundError:
                continue
            os.remove(sp[5])
            if last:
                for c in data['canons']:
                    seen_level += 1
                    if c not in visited:
                        visited.add(c)
                        new_states += 1
            else:
                for c, ci, child, ok in data['children']:
                    seen_level += 1
                    if c not in visited:
                        visited.add(c)
                        new_states += 1
                        if ok:
                            new_frontier.append([ci, child])
        new_frontier.sort(key=lambda it: (it[0], core.jdump(it[1])))
        per_level.append({'level': level, 'expanded': len(frontier), 'new_states': new_states})
        frontier = new_frontier
        if not complete:
            break
    stats[lattice] = {'depth': depth, 'states': len(visited), 'levels': per_level}


def sweep_histories(quick: bool) -> dict:
    out: dict = {}
    # (B) every representable name over a small alphabet, every add form x access form
    L = 4 if quick else 5
    alpha = ['a', 'b', '.', '/']
    names = []
    for n in range(1, L + 1):
        for tup in itertools.product(alpha, repeat=n):
            s = ''.join(tup)
            if split_name(s) is not None:
                names.append(s)
    cfgs = [CONFIGS.index(('dir', 4, 0)), CONFIGS.index(('single', 1024, 0))]
    items = []
    for nm in names:
        for ci in cfgs:
            for f in FORMS_X:
                o = [['open', 'w']]
                items.append([ci, o + [['add', nm, f, 6, 0], ['flush']]])
                items.append([ci, o + [['new', nm, f], ['flush', 'ctx']]])
                for g in FORMS_X:
                    items.append([ci, o + [['add', nm, f, 6, 0], ['write', nm, g, 9, 1], ['flush']]])
                    items.append([ci, o + [['add', nm, f, 6, 0], ['flush'], ['reopen', 'a'], ['del', nm, g], ['flush']]])
    # long name parts around the reader's block sizes (directory strings are NUL-terminated, read in blocks)
    long_names = []
    for n in (31, 32, 63, 64, 65, 127, 128, 129, 255, 256, 257):
        long_names += ['s' * n + '.txt', 'f' * n + '/x.txt', 'x.' + 'e' * n, 'd/' + 'q' * n, 'p/' + 'r' * (n - 2) + '/' + 's' * n + '.' + 'e' * n]
    for nm in long_names:
        assert split_name(nm) is not None, nm
        for ci in cfgs:
            o = [['open', 'w']]
            items.append([ci, o + [['add', nm, 's', 6, 0], ['add', 'a/b.txt', 's', 7, 0], ['flush'], ['reopen', 'a'], ['write', nm, '3', 9, 1], ['flush']]])
            items.append([ci, o + [['add', 'a/b.txt', 's', 7, 0], ['add', nm, '2', 6, 0], ['flush'], ['reopen', 'a'], ['del', nm, 's'], ['flush']]])
    out['names'] = items
    out['_names_count'] = len(names) + len(long_names)
    # (C) every non-empty subset of the menu names, sizes rotating through the boundary menu
    items = []
    for ci, cfg in enumerate(CONFIGS):
        sizes = sizes_for(cfg[1], 'edge' if quick else 'full')
        if quick:
            sizes = sizes + [300000]
        for r in range(1, len(NAMES) + 1):
            for sub in itertools.combinations(range(len(NAMES)), r):
                for rot in range(len(sizes)):
                    adds = [['add', NAMES[j], FORMS[(j + rot) % 3], sizes[(n + rot) % len(sizes)], 0]
                            for n, j in enumerate(sub)]
                    h = [['open', 'w']] + adds + [['flush']]
                    if rot % 2 == 0:
                        h += [['reopen', 'a'], ['del', NAMES[sub[0]], FORMS[rot % 3]], ['flush']]
                    else:
                        h += [['reopen', 'a'], ['write', NAMES[sub[-1]], FORMS[rot % 3], sizes[(rot + 1) % len(sizes)], 1],
                              ['flush']]
                    items.append([ci, h])
    out['filesets'] = items
    # (C') the same subsets on dir archives with the archive index varying per file (None / 0 / 1 in one archive)
    items = []
    mixed = [None, 0, 1]
    for ci, cfg in enumerate(CONFIGS):
        if cfg[0] != 'dir' or cfg[2] != 0:
            continue
        sizes = sizes_for(cfg[1], 'edge')
        for r in range(1, len(NAMES) + 1):
            for sub in itertools.combinations(range(len(NAMES)), r):
                for rot in range(3):
                    adds = [['add', NAMES[j], FORMS[(j + rot) % 3], sizes[(n + rot) % len(sizes)], 0, mixed[(n + rot) % 3]]
                            for n, j in enumerate(sub)]
                    h = [['open', 'w']] + adds + [['flush'], ['reopen', 'a']]
                    h += [['write', NAMES[sub[-1]], 's', sizes[-1], 1, mixed[(len(sub) + rot) % 3]],
                          ['write', NAMES[sub[0]], 's', sizes[-2], 1, mixed[(len(sub) + rot + 1) % 3]], ['flush']]
                    items.append([ci, h])
    out['mixed_index'] = items
    # (C'') equal-sized files spread over footer / pak_000 / pak_001 (so offsets and lengths coincide between the
    # containers), then each one deleted - with and without a reopen in between; the others must be untouched
    items = []
    for ci, cfg in enumerate(CONFIGS):
        if cfg[0] != 'dir' or cfg[2] != 0:
            continue
        lim = cfg[1] or 0
        for size in (lim + 16, 512):
            for r in (2, 3):
                for sub in itertools.combinations(range(4), r):
                    for idx in itertools.product(mixed, repeat=r):
                        if len(set(idx)) < 2 and quick:
                            continue
                        adds = [['add', NAMES[j], 's', size, 0, idx[n]] for n, j in enumerate(sub)]
                        for victim in sub:
                            items.append([ci, [['open', 'w']] + adds + [['flush'], ['reopen', 'a'], ['del', NAMES[victim], 's'], ['flush']]])
                            if not quick or victim == sub[-1]:
                                items.append([ci, [['open', 'w']] + adds + [['del', NAMES[victim], 's'], ['flush']]])
    out['mixed_delete'] = items
    # (C''') archive indexes at the edges of the 16-bit field (0x7fff itself means "stored in the directory file")
    items = []
    high = [0x7ffe, 0x8000, 0xfffe]
    for ci, cfg in enumerate(CONFIGS):
        if cfg[0] != 'dir' or cfg[2] != 0:
            continue
        lim = cfg[1] or 0
        for a_i in high + [None]:
            for b_i in high:
                h = [['open', 'w'], ['add', NAMES[0], 's', lim + 9, 0, a_i], ['add', NAMES[2], '2', lim + 5, 0, b_i], ['flush'],
                     ['reopen', 'a'], ['write', NAMES[0], '3', lim + 12, 1, b_i], ['flush'], ['reopen', 'r']]
                items.append([ci, h])
    out['high_index'] = items
    # (D) overwrite with different data of equal CRC-32
    items = []
    for ci, cfg in enumerate(CONFIGS):
        if cfg[1] in (0, 1024) and cfg[2] == 0:
            a, b = CRC_TWINS
            items.append([ci, [['open', 'w'], ['add', 'a/b.txt', 's', 'lit:' + a, 0],
                               ['write', 'a/b.txt', 's', 'lit:' + b, 1], ['flush']]])
            items.append([ci, [['open', 'w'], ['add', 'a/b.txt', 's', 'lit:' + a, 0], ['flush'], ['reopen', 'a'],
                               ['write', 'a/b.txt', 's', 'lit:' + b, 1], ['flush']]])
    out['crc_twins'] = items
    return out


def run(ctx: core.Ctx) -> None:
    global _SCRATCH
    _SCRATCH = ctx.scratch
    assert zlib.crc32(CRC_TWINS[0].encode()) == zlib.crc32(CRC_TWINS[1].encode())
    q = ctx.quick
    # safety net only (a wedged worker); the tier budgets are met by the bounds, not by this cap
    deadline = time.time() + (900 if q else 5400)
    stats: dict = {}
    for lattice, (menu, roots, dq, dt) in LATTICES.items():
        bfs(ctx, lattice, roots, dq if q else dt, deadline, stats)
    sw = sweep_histories(q)
    n_names = sw.pop('_names_count')
    shards = []
    for label, items in sw.items():
        for chunk in core.chunked(items, 200):
            shards.append(('sweep', label, chunk))
    k = ctx.seed % len(shards)
    core.par_map(shard, shards[k:] + shards[:k], ctx.acc, deadline=deadline)

    c = ctx.acc.counters
    transitions = sum(v for k2, v in c.items() if k2.startswith('transitions_'))
    sweeps = sum(v for k2, v in c.items() if k2.startswith('histories_'))
    ctx.coverage_extra['states'] = sum(s['states'] for s in stats.values())
    ctx.coverage_extra['transitions'] = transitions
    ctx.coverage_extra['traces_validated_against_impl'] = transitions + sweeps
    ctx.coverage_extra['lattices'] = stats
    ctx.coverage_extra['sweep_histories'] = {k2[len('histories_'):]: v for k2, v in c.items() if k2.startswith('histories_')}
    desc = []
    for lattice, (menu, roots, dq, dt) in LATTICES.items():
        desc.append(f"'{lattice}': depth {dq if q else dt} after the initial open({'|'.join(roots)}), names {menu['names']}, "
                    f"sizes '{menu['sizes']}'" + (', incl. new_file, operations the model rejects (existing/missing name) and '
                                                  'read-only handles' if menu['errors'] else ''))
    ctx.rule = (
        'Level-synchronous BFS over operation histories of real VPK objects on tmpfs, for each of the 24 configurations '
        '(kind dir/single x dir_data_limit None/0/4/1024 x arch_index None/0/1) ; alphabet add_file / '
        'new_file / FileInfo.write / del / write_dirfile / reopen r,a,w (reopen r,a only once a directory has been written), '
        'all six mutations attempted on every read-only handle; name forms (string/2-tuple/3-tuple) rotate over name and '
        'operation so each name is added in one form and accessed in the other two; every transition (parent state x '
        'operation) is replayed once from scratch and the full oracle (live handle, fresh read-only open, independent '
        'directory decoder) is evaluated on the resulting state; states are merged globally by canonical form. Lattices: '
        + '; '.join(desc) + '. Size menus: edge = {0, limit, limit+1, 65536} ({0,1,65535,65536} for limit None/0), two = '
        '{limit+1, 65536}, one = {limit+1}, full = {0,1,limit-1,limit,limit+1,65535,65536,70000,300000}. Sweeps (each history checked after '
        f'every step): all {n_names} representable names of length <= {4 if q else 5} over [a b . /] x add form x access form x '
        '{add, new_file, overwrite, reopen-a + delete}; every non-empty subset of the 6 menu names x size rotation x 24 '
        'configurations followed by reopen-a + delete/overwrite; the same subsets on dir archives with the archive index '
        'varying per file (None/0/1 within one archive) followed by reopen-a + two overwrites into other indexes; equal-sized files on every assignment of 2-3 files to footer/pak_000/pak_001 followed by deleting each one (with and without reopen); names with parts of 31..257 characters; archive indexes 0x7ffe / 0x8000 / 0xfffe; the 3-tuple spelling with an empty extension slot and a dotted name; overwrite with CRC-32-colliding data. '
        'Non-trivial = the resulting state has a written directory holding >= 1 file whose bytes were compared after a '
        'fresh open. Each (parent state, operation) pair is enumerated once.')
    ctx.assumptions.append(
        'names are restricted to the representable set: ASCII without blank/backslash, no empty/./.. folder segment, last '
        'segment not ending in "." (the directory tree stores an empty extension as "no extension", so "x." aliases "x")')
    ctx.assumptions.append(
        'the open handle is also compared with the model (list/read/verify) in every state; the property text only speaks '
        'about reopened archives, so those clauses have their own kinds (live_*) - on the repaired tree they never fire')
    ctx.assumptions.append(
        'a VPK object has no close(); "close and reopen" = drop the handle (after write_dirfile() when the history says so) '
        'and construct a new VPK; before the first write_dirfile() after a truncating open no directory exists and nothing '
        'is demanded of a reopen')


# ---------------------------------------------------------------------------------------------

def replay(case: dict) -> list:
    # observing is not free of effects on a lazily loading archive object: the oracle reads every file, so a history
    # replayed with the oracle after EVERY step is a different history from the explored one (oracle after the last step).
    # Both are executed: the explored form first, then the every-step form.
    for check_from in (None, 0):
        acc = core.Acc()
        base = tempfile.mkdtemp(prefix='verif-C13-replay-', dir='/dev/shm')
        try:
            wd = os.path.join(base, 'arch')
            src = os.path.join(base, 'src')
            os.makedirs(wd)
            os.makedirs(os.path.join(src, 'sub'))
            with open(os.path.join(src, 'sub', 'f.txt'), 'wb') as f:
                f.write(b'folder file')
            cfg = tuple(case['cfg'])
            hist = [tuple(o) for o in case['hist']]
            Runner(acc, wd, src).run(cfg, hist, check_from=check_from)
        finally:
            shutil.rmtree(base, ignore_errors=True)
        if acc.fail_counts:
            break
    return acc.all_failures()
