"""C19 — all filesystem backends resolve names alike; chains honour priority.

Part 'backend': every file set of <= K names from an 8-name universe (mixed case, nested folders, names that are
prefixes of others, a pair differing only in case) is materialised as VirtualFileSystem, a real .zip
(ZipFileSystem), a real _dir.vpk written with srctools.vpk (VPKFileSystem) and a real directory
(RawFileSystem); every spelling (case x slash kind x './' prefix) of every universe name and of absent names
is looked up through `in`, `[]`, open_bin, open_str; every folder (real folders, '', prefixes that are not
folder boundaries, file names used as folders) in every spelling (additionally x trailing separator) is walked.

Part 'chain': a pool of members (6 file-set/prefix templates x 4 backends) combined into every ordered chain
of <= 3 (quick) / 4 (thorough) distinct members, every priority=True/False insertion history checked against
the predicted member order, lookups and de-duplicated walks compared with the model.

Reference model (independent of filesys.py): dict folded-normalised-path -> bytes; folder membership is
boundary-aware; chain = first member that has prefix/name.
"""
from __future__ import annotations

import itertools
import os
import shutil
import zipfile

from srctools.filesys import (get_filesystem,
    VirtualFileSystem, ZipFileSystem, VPKFileSystem, RawFileSystem, FileSystemChain,
)
from srctools.vpk import VPK

from mcv import core

PROPERTY = 'C19'
LEVEL = 'exploration'

UNIVERSE = ['a.txt', 'A.TXT', 'mat.txt', 'materials/x.vmt', 'materials/sub/y.vtf', 'materials2/z.vmt',
            'Models/m.mdl', 'x', '.hid/k.txt', 'Stra\u00dfe/\u0391\u03a3.txt',
            'materials.txt', 'materials-old/q.vmt',      # these sort between 'materials' and 'materials/'
            'f' * 64 + '/' + 'n' * 70 + '.' + 'e' * 64]     # name parts of 64+ characters
ABSENT = ['nope.txt', 'materials', 'materials/sub', 'materials/x', 'mat', 'x.vmt', 'hid/k.txt', 'k.txt', '.a.txt']     # never files
BACKENDS = ['virtual', 'zip', 'vpk', 'raw']
SET_BACKENDS = BACKENDS + ['raw_free']       # RawFileSystem(path, constrain_path=False): file-set battery only
LOOKUP_OPS = ['in', 'getitem', 'open_bin', 'open_str']

REAL_FOLDERS = ['materials', 'materials/sub', 'materials2', 'Models', '.hid']
NON_BOUNDARY = ['mat', 'materials/s', 'material', 'Model', 'm', 'hid']       # prefixes that are no folder boundary
FILE_AS_FOLDER = ['a.txt', 'x', 'materials/x.vmt', 'mat.txt']           # a file is not a folder
NO_FOLDER = ['nope', 'materials/nope']
FOLDER_BASES = [''] + REAL_FOLDERS + NON_BOUNDARY + FILE_AS_FOLDER + NO_FOLDER

AMBIG = object()        # content of a folded name held by two stored names differing only in case
WALK_CAP = 200


# ---------------------------------------------------------------------------------------------
# reference model

def norm(s: str, fold: bool = True) -> str:
    """Normal form of a path: both slashes are separators, '' and '.' components vanish, case is folded."""
    comps = [c for c in s.replace('\\', '/').split('/') if c not in ('', '.')]
    r = '/'.join(comps)
    return r.casefold() if fold else r


def under(key: str, folder: str) -> bool:
    """key lies inside folder (both in normal form); the empty folder contains everything."""
    return folder == '' or key.startswith(folder + '/')


class Model:
    """files: list of (stored name, bytes) in materialisation order."""

    def __init__(self, files: list):
        self.files = list(files)
        self.folded: dict = {}
        for name, data in files:
            k = norm(name)
            self.folded[k] = AMBIG if k in self.folded else data
        self.exact = {norm(name, fold=False): data for name, data in files}
        self.has_casedup = any(v is AMBIG for v in self.folded.values())

    def keys(self, exact: bool) -> dict:
        return self.exact if exact else self.folded


def vpk_representable(name: str) -> bool:
    """Own statement of what a VPK directory tree can hold: ASCII 'dir/name.ext' where the file name proper is
    non-empty and the split at the last '.' reproduces the name (no leading/trailing '.', no empty component)."""
    if not name.isascii():
        return False
    comps = name.split('/')
    if any(c in ('', '.', '..', ' ') for c in comps):
        return False
    base = comps[-1]
    return not base.startswith('.') and not base.endswith('.')


def vpk_order(files: list) -> list:
    """The VPK writer stores entries sorted by (extension, folder, name); no other order is representable.  For sets
    with case-duplicates the same order is used for every backend so that "last one wins" is comparable."""
    def key(item):
        name = item[0]
        d, _, b = name.rpartition('/')
        stem, dot, ext = b.rpartition('.')
        if not dot:
            stem, ext = b, ''
        return (ext, d, stem)
    return sorted(files, key=key)


# ---------------------------------------------------------------------------------------------
# materialisation

def materialise(where: str, backend: str, files: list) -> str:
    """Write the on-disk form; return the path handed to the filesystem class ('' for virtual)."""
    if backend == 'virtual':
        return ''
    os.makedirs(where, exist_ok=True)
    if backend == 'zip':
        path = os.path.join(where, 'pack.zip')
        with zipfile.ZipFile(path, 'w') as zf:
            # archives made by `zip -r`, 7-zip or ZipFile.mkdir carry an entry for each folder (name ending in '/', no data) - also
            # for folders without files; such entries are not files
            folders = {name.rsplit('/', 1)[0] for name, _ in files if '/' in name}
            for fo in sorted({f'{fo2[:i]}' for fo2 in folders for i in [j for j, c in enumerate(fo2) if c == '/'] + [len(fo2)]} | {'empty_dir'}):
                zf.writestr(zipfile.ZipInfo(fo + '/'), b'')
            for name, data in files:
                zf.writestr(name, data)
        return path
    if backend == 'vpk':
        path = os.path.join(where, 'pak01_dir.vpk')
        vpk = VPK(path, mode='w')
        for i, (name, data) in enumerate(files):
            vpk.add_file(name, data, arch_index=(0, None, 1)[i % 3])       # numbered archives 0 and 1, and the directory file's tail
        vpk.write_dirfile()
        return path
    if backend in ('raw', 'raw_free'):
        path = os.path.join(where, 'dir')
        os.makedirs(path, exist_ok=True)
        for name, data in files:
            p = os.path.join(path, name)
            os.makedirs(os.path.dirname(p), exist_ok=True)
            with open(p, 'wb') as f:
                f.write(data)
        return path
    raise AssertionError(backend)


def open_fs(backend: str, path: str, files: list):
    if backend == 'virtual':
        return VirtualFileSystem(dict(files))
    if backend == 'zip':
        return ZipFileSystem(path)
    if backend == 'vpk':
        return VPKFileSystem(path)
    if backend == 'raw_free':
        return RawFileSystem(path, constrain_path=False)
    return RawFileSystem(path)


# ---------------------------------------------------------------------------------------------
# spellings

def spellings(base: str, trail: bool) -> dict:
    """string -> feature tuple (the fewest features that produce this string)."""
    out: dict = {}
    if base == '':
        # the root has spellings of its own: the current-folder component, alone and with a separator
        return {'': (), '.': ('dot',), './': ('dot', 'trail_fwd'), '.\\': ('dot', 'trail_back')} if trail else {'': ()}
    for case in ('exact', 'upper', 'lower'):
        for back in (False, True):
            for dot in (False, True):
                for tr in (('none', 'fwd', 'back') if trail else ('none',)):
                    s = base if case == 'exact' else base.upper() if case == 'upper' else base.lower()
                    feats = []
                    if s != base:
                        feats.append(case)
                    if dot:
                        s = './' + s
                        feats.append('dot')
                    if back and '/' in s:
                        s = s.replace('/', '\\')
                        feats.append('backslash')
                    if tr != 'none':
                        s += '/' if tr == 'fwd' else '\\'
                        feats.append('trail_' + tr)
                    ft = tuple(sorted(feats))
                    if s not in out or (len(ft), ft) < (len(out[s]), out[s]):
                        out[s] = ft
    return out


def attribute(results: dict) -> dict:
    """results: feature tuple -> (ok, diff, detail).  Returns feature tuple -> cause label for the failing ones:
    'base' if the canonical spelling fails too; otherwise the single features that fail on their own ('+'-joined),
    or 'combo:<features>' if only the combination fails."""
    causes = {}
    canon = results.get(())
    canon_ok = canon is None or canon[0]
    for feats, (ok, diff, detail) in results.items():
        if ok:
            continue
        if not canon_ok:
            causes[feats] = 'base'
            continue
        singles = [f for f in feats if (f,) in results and not results[(f,)][0]]
        if singles:
            causes[feats] = '+'.join(singles)
        else:
            causes[feats] = 'combo:' + '+'.join(feats)
    return causes


# ---------------------------------------------------------------------------------------------
# observations on the real objects

def read_all(opener) -> bytes:
    h = opener()
    try:
        d = h.read()
    finally:
        h.close()
    return d.encode('utf8') if isinstance(d, str) else d


def observe_lookup(fs, op: str, q: str):
    """('present', bytes|None) / ('absent',) / ('exc', text)"""
    try:
        if op == 'in':
            return ('present', None) if q in fs else ('absent',)
        if op == 'getitem':
            f = fs[q]
            return ('present', read_all(f.open_bin))
        if op == 'open_bin':
            return ('present', read_all(lambda: fs.open_bin(q)))
        if op == 'open_str':
            return ('present', read_all(lambda: fs.open_str(q)))
    except FileNotFoundError:
        return ('absent',)
    except (IsADirectoryError, NotADirectoryError):
        # RawFileSystem.open_bin('materials') on a folder: documented as FileNotFoundError, raises its sibling
        # OSError.  The property speaks about which names exist, not about the exception subclass.
        return ('absent', 'not-a-file OSError')
    except Exception as e:  # noqa: BLE001
        return ('exc', f'{type(e).__name__}: {e}')
    raise AssertionError(op)


def judge_lookup(obs, want) -> tuple:
    """want: ('present', bytes|AMBIG) / ('absent',).  Returns (ok, diff)."""
    if obs[0] == 'exc':
        return False, 'exception'
    if want[0] == 'absent':
        return (obs[0] == 'absent'), 'found_absent_name'
    if obs[0] != 'present':
        return False, 'not_found'
    if obs[1] is not None and want[1] is not AMBIG and obs[1] != want[1]:
        return False, 'wrong_bytes'
    return True, ''


def observe_walk(fs, folder: str):
    """list of (File.path, bytes via the File, relookup observation) or ('exc', text)"""
    out = []
    try:
        for f in itertools.islice(fs.walk_folder(folder), WALK_CAP):
            data = read_all(f.open_bin)
            out.append((f.path, data, observe_lookup(fs, 'getitem', f.path)))
    except Exception as e:  # noqa: BLE001
        return ('exc', f'{type(e).__name__}: {e}')
    return out


def judge_walk(obs, keys: dict, folder: str, exact: bool) -> tuple:
    """keys: normal-form name -> bytes|AMBIG of the system walked.  Returns (ok, diff, detail)."""
    if isinstance(obs, tuple):
        return False, 'exception', obs[1]
    nf = norm(folder, fold=not exact)
    expected = sorted(k for k in keys if under(k, nf))
    got = sorted(norm(p, fold=not exact) for p, _, _ in obs)
    if got != expected:
        missing = sorted(set(expected) - set(got))
        extra = sorted(set(got) - set(expected))
        if len(set(got)) != len(got) and not missing and not extra:
            diff = 'duplicate'
        elif extra and not missing:
            diff = ('prefix_not_boundary' if all(e.startswith(nf) and not under(e, nf) for e in extra) and nf
                    else 'extra')
        elif missing and not extra:
            diff = 'empty_folder_lists_nothing' if (nf == '' and not got) else 'missing'
        else:
            diff = 'missing+extra'
        return False, diff, f'listed {[p for p, _, _ in obs]}, expected (normal form) {expected}'
    for p, data, again in obs:
        want = keys[norm(p, fold=not exact)]
        if want is not AMBIG and data != want:
            return False, 'walked_file_wrong_bytes', f'File {p!r} read {data!r}, expected {want!r}'
        if again[0] != 'present':
            return False, 'walked_path_not_found', f'walked File.path {p!r} cannot be looked up again: {again}'
        if again[1] != data:
            return False, 'walked_path_other_file', f'walked File.path {p!r} read {data!r} but fs[path] reads {again[1]!r}'
    return True, '', ''


# ---------------------------------------------------------------------------------------------
# part 'backend'

def set_files(names: list, tag: str) -> list:
    # two of every three files are larger than a VPK's directory-data limit (so that its tail lives in an archive, not in the tree)
    files = [(n, f'<{tag}|{n}>'.encode() + (b'0123456789abcdef' * 160 if i % 3 != 2 else b'')) for i, n in enumerate(names)]
    model = Model(files)
    if model.has_casedup:
        files = vpk_order(files)
    return files


def backend_battery(acc: core.Acc, names: list, workdir: str, only: dict | None = None) -> None:
    """Run everything for one file set.  `only` (replay) = {'backend','op','base'} restricts the work."""
    files = set_files(names, 's')
    model = Model(files)
    systems = {}
    for b in SET_BACKENDS:
        if only and b != only['backend'] and only['op'] not in ('casedup', 'lead_sep'):
            continue
        if b.startswith('raw') and model.has_casedup:
            acc.count('skipped_raw_casedup_set')
            continue
        if b == 'vpk' and not all(vpk_representable(n) for n, _ in files):
            acc.count('skipped_vpk_unrepresentable')
            continue
        try:
            path = materialise(os.path.join(workdir, b), b, files)
            systems[b] = open_fs(b, path, files)
        except Exception as exc:  # noqa: BLE001 - a file set the backend can represent, written by the backend's own writer
            acc.evaluations += 1
            acc.fail('backend_open_raises', {'part': 'backend', 'names': names, 'backend': b, 'op': 'open', 'base': ''},
                     f'file set {names}: building / opening the {b} backend raised {type(exc).__name__}: {str(exc)[:300]}', backend=b, op='open', cause='open')
            continue
        if b in ('zip', 'vpk', 'raw') and (not only or only['op'] == 'factory'):
            # the factory function picks the same class, and iterating a file system lists what walking its root lists
            acc.evaluations += 1
            try:
                via = get_filesystem(path)
                a_list = sorted(f.path for f in via)
                b_list = sorted(f.path for f in systems[b].walk_folder(''))
                if type(via) is not type(systems[b]) or a_list != b_list:
                    acc.fail('factory_differs', {'part': 'backend', 'names': names, 'backend': b, 'op': 'factory', 'base': ''},
                             f'file set {names}: get_filesystem({os.path.basename(path)!r}) is a {type(via).__name__} listing {a_list}; '
                             f'{type(systems[b]).__name__}(path) lists {b_list}', backend=b, op='factory', cause='factory')
            except Exception as exc:  # noqa: BLE001
                acc.fail('factory_differs', {'part': 'backend', 'names': names, 'backend': b, 'op': 'factory', 'base': ''},
                         f'file set {names}: get_filesystem / iteration raised {type(exc).__name__}: {exc}', backend=b, op='factory', cause='factory')

    # ---- a leading separator: not a spelling the property names, so no answer is prescribed - but every archive-like
    # backend has to give the same one (the directory backend treats it as an absolute path and refuses it)
    if not only or only['op'] == 'lead_sep':
        for base in UNIVERSE:
            for q in ('/' + base, '\\' + base, '//' + base):
                for op in ('in', 'getitem'):
                    got = {}
                    for b, fs in systems.items():
                        if b.startswith('raw'):
                            continue
                        o = observe_lookup(fs, op, q)
                        got[b] = o[0] if o[0] != 'present' else ('present', o[1])
                    acc.evaluations += 1
                    if len({repr(v) for v in got.values()}) > 1:
                        acc.fail('lookup_backends_disagree', {'part': 'backend', 'names': names, 'backend': 'all', 'op': 'lead_sep', 'base': base, 'q': q},
                                 f'file set {names}: {op}({q!r}) answers differ between backends: {got}', op=op, cause='leading_separator')
    # ---- lookups
    lookup_obs: dict = {}
    for base in UNIVERSE + ABSENT:
        sp = spellings(base, trail=False)
        for b, fs in systems.items():
            exact = b.startswith('raw')
            keys = model.keys(exact)
            for op in LOOKUP_OPS:
                if only and (only['op'] not in (op, 'casedup') or only['base'] != base):
                    continue
                results = {}
                details = {}
                for q, feats in sp.items():
                    if exact and ('upper' in feats or 'lower' in feats):
                        continue        # the directory backend is only required to resolve exact-case spellings
                    k = norm(q, fold=not exact)
                    want = ('present', keys[k]) if k in keys else ('absent',)
                    obs = observe_lookup(fs, op, q)
                    lookup_obs[(b, op, q)] = obs
                    ok, diff = judge_lookup(obs, want)
                    acc.evaluations += 1
                    if want[0] == 'present' or not ok:
                        acc.nontrivial += 1
                    acc.outcome((b, op, feats, want[0], obs[0]))
                    results[feats] = (ok, diff, '')
                    details[feats] = (q, want, obs)
                for feats, cause in attribute(results).items():
                    q, want, obs = details[feats]
                    wtxt = 'absent' if want[0] == 'absent' else ('present' if want[1] is AMBIG else f'present {want[1]!r}')
                    acc.fail('lookup', {'part': 'backend', 'names': names, 'backend': b, 'op': op, 'base': base,
                                        'feats': list(feats)},
                             f'files {names} as {b}: {op}({q!r}) -> {obs}; model: {wtxt}',
                             backend=b, op=op, cause=cause, diff=results[feats][1])
    # ---- case-duplicate sets: the three archive-like backends must agree on the winner
    if model.has_casedup and len(systems) >= 2 and (not only or only['op'] == 'casedup'):
        dup_keys = sorted(k for k, v in model.folded.items() if v is AMBIG)
        qs: dict = {}
        for base in UNIVERSE:
            if norm(base) in dup_keys:
                for q, qfeats in spellings(base, trail=False).items():
                    qs.setdefault(q, 'dot' in qfeats)
        for q, dotted in sorted(qs.items()):
            if only and only['base'] != q:
                continue
            for op in LOOKUP_OPS:
                seen = {b: lookup_obs.get((b, op, q)) or observe_lookup(fs, op, q) for b, fs in systems.items()}
                acc.evaluations += 1
                acc.nontrivial += 1
                if len({core.jdump(list(v[:2])) for v in seen.values()}) > 1:
                    acc.fail('casedup_backends_disagree',
                             {'part': 'backend', 'names': names, 'backend': '*', 'op': 'casedup', 'base': q, 'feats': [],
                              'lookup_op': op},
                             f'files {[n for n, _ in files]} (in this order): {op}({q!r}) differs between backends: {seen}',
                             op=op, dot=dotted)
    # ---- walks
    for base in FOLDER_BASES:
        sp = spellings(base, trail=True)
        for b, fs in systems.items():
            if only and (only['op'] != 'walk' or only['base'] != base):
                continue
            exact = b.startswith('raw')
            keys = model.keys(exact)
            results = {}
            details = {}
            for folder, feats in sp.items():
                if exact and ('upper' in feats or 'lower' in feats):
                    continue
                obs = observe_walk(fs, folder)
                ok, diff, detail = judge_walk(obs, keys, folder, exact)
                acc.evaluations += 1
                nonempty = any(under(k, norm(folder, fold=not exact)) for k in keys)
                if nonempty or not ok:
                    acc.nontrivial += 1
                acc.outcome((b, 'walk', feats, nonempty, ok, diff))
                results[feats] = (ok, diff, detail)
                details[feats] = folder
            for feats, cause in attribute(results).items():
                acc.fail('walk', {'part': 'backend', 'names': names, 'backend': b, 'op': 'walk', 'base': base,
                                  'feats': list(feats)},
                         f'files {names} as {b}: walk_folder({details[feats]!r}) {results[feats][2]}',
                         backend=b, op='walk', cause=cause, diff=results[feats][1])
    for fs in systems.values():
        z = getattr(fs, 'zip', None)
        if z is not None:
            z.close()


# ---------------------------------------------------------------------------------------------
# part 'chain'

# (file set, prefix, prefix for the directory backend [must be exact-case], prefix kind)
TEMPLATES = [
    (['a.txt', 'materials/x.vmt', 'Models/m.mdl'], '', '', 'none'),
    (['A.TXT', 'materials/x.vmt', 'materials/sub/y.vtf'], '', '', 'none'),
    (['materials/x.vmt', 'materials/sub/y.vtf', 'materials2/z.vmt'], 'materials', 'materials', 'plain'),
    (['mat.txt', 'materials/x.vmt', 'x'], 'materials/', 'materials/', 'trailing_sep'),
    (['a.txt', 'materials/sub/y.vtf', 'Models/m.mdl'], 'models', 'Models', 'other_case'),
    (['a.txt', 'materials/x.vmt', 'materials/sub/y.vtf'], 'materials\\sub', 'materials\\sub', 'backslash'),
    # prefix spelled in upper case over names stored in lower case (the stripping must fold both sides)
    (['b.txt', 'materials/x.vmt', 'materials/sub/y.vtf'], 'MATERIALS', 'materials', 'upper_case'),
]
CHAIN_QUERIES = ['a.txt', 'A.TXT', 'materials/x.vmt', 'materials/sub/y.vtf', 'Models/m.mdl', 'x.vmt', 'sub/y.vtf',
                 'm.mdl', 'y.vtf', 'z.vmt', 'mat.txt', 'x', 'nope', 'materials2/z.vmt']
CHAIN_FOLDERS = ['', 'materials', 'materials/', 'materials/sub', 'sub', 'sub/', 'Models', 'mat', 's', 'nope']


class Member:
    def __init__(self, t: int, backend: str):
        names, prefix, raw_prefix, kind = TEMPLATES[t]
        self.t = t
        self.backend = backend
        self.id = f'T{t}:{backend}'
        self.files = [(n, f'<{self.id}|{n}>'.encode()) for n in names]
        self.model = Model(self.files)
        self.prefix = raw_prefix if backend == 'raw' else prefix
        self.prefix_kind = 'plain' if (backend == 'raw' and kind in ('other_case', 'upper_case')) else kind
        self.exact = backend == 'raw'
        self.fs = None

    def open(self, pooldir: str) -> None:
        self.fs = open_fs(self.backend, os.path.join(pooldir, self.id.replace(':', '_'),
                                                     {'zip': 'pack.zip', 'vpk': 'pak01_dir.vpk', 'raw': 'dir',
                                                      'virtual': ''}[self.backend]), self.files)

    # model of this member as seen through its prefix
    def lookup(self, q: str):
        """('present', data) / ('absent',) / None when the directory backend's answer depends on the host's case rules"""
        full = self.prefix + '/' + q
        k = norm(full)
        if k not in self.model.folded:
            return ('absent',)
        if self.exact and norm(full, fold=False) not in self.model.exact:
            return None
        return ('present', self.model.folded[k])

    def listing(self, folder: str):
        """dict relative folded name -> data, or None when indeterminate (directory backend, non-exact case)"""
        nf = norm(self.prefix + '/' + folder)
        np_ = norm(self.prefix)
        hits = {k: v for k, v in self.model.folded.items() if under(k, nf)}
        if self.exact:
            nfe = norm(self.prefix + '/' + folder, fold=False)
            if sorted(k.casefold() for k in self.model.exact if under(k, nfe)) != sorted(hits):
                return None
        return {(k[len(np_) + 1:] if np_ else k): v for k, v in hits.items()}


def build_pool(pooldir: str) -> None:
    for t in range(len(TEMPLATES)):
        for b in BACKENDS:
            m = Member(t, b)
            materialise(os.path.join(pooldir, m.id.replace(':', '_')), b, m.files)


_POOL: dict = {}


def pool(pooldir: str) -> dict:
    """Filesystem objects are opened per process (zip handles must not be shared across fork)."""
    key = (os.getpid(), pooldir)
    if key not in _POOL:
        _POOL.clear()
        members = {}
        for t in range(len(TEMPLATES)):
            for b in BACKENDS:
                m = Member(t, b)
                m.open(pooldir)
                members[(t, b)] = m
        _POOL[key] = members
    return _POOL[key]


def chain_spellings(base: str) -> dict:
    return {s: f for s, f in spellings(base, trail=False).items() if 'dot' not in f}


def build_chain(members: list, flags: list | None = None):
    ch = FileSystemChain()
    for i, m in enumerate(members):
        pr = bool(flags and flags[i])
        if m.prefix:
            ch.add_sys(m.fs, m.prefix, priority=pr)
        elif pr:
            ch.add_sys(m.fs, priority=True)
        else:
            ch.add_sys(m.fs)
    return ch


def chain_case(members: list, **kw) -> dict:
    return dict({'part': 'chain', 'members': [[m.t, m.backend] for m in members]}, **kw)


def chain_battery(acc: core.Acc, members: list, only: dict | None = None) -> None:
    k = len(members)
    desc = [f'{m.id}(prefix={m.prefix!r})' for m in members]
    # ---- every insertion history yields the predicted member order
    if not only or only['op'] == 'order':
        want_ctor = [(m.fs, m.prefix) for m in members]
        ctor = FileSystemChain(*[(m.fs, m.prefix) if m.prefix else m.fs for m in members])
        acc.evaluations += 1
        if not same_systems(ctor.systems, want_ctor):
            acc.fail('chain_order', chain_case(members, op='order', flags=None),
                     f'FileSystemChain(*{desc}).systems is {ctor.systems}', via='constructor')
        for flags in itertools.product([False, True], repeat=k):
            if only and only.get('flags') is not None and list(flags) != only['flags']:
                continue
            ch = build_chain(members, list(flags))
            order: list = []
            for m, pr in zip(members, flags):
                if pr:
                    order.insert(0, (m.fs, m.prefix))
                else:
                    order.append((m.fs, m.prefix))
            acc.evaluations += 1
            acc.nontrivial += 1
            if not same_systems(ch.systems, order):
                acc.fail('chain_order', chain_case(members, op='order', flags=list(flags)),
                         f'add_sys in order {desc} with priority flags {flags}: systems is {ch.systems}', via='add_sys')
    chain = build_chain(members)
    nested_chain = [None]
    # ---- lookups
    for base in CHAIN_QUERIES:
        if only and (only['op'] not in LOOKUP_OPS or only['base'] != base):
            continue
        for q, feats in chain_spellings(base).items():
            if only and only['q'] != q:
                continue
            want = ('absent',)
            owner = None
            determinate = True
            for m in members:
                r = m.lookup(q)
                if r is None:
                    determinate = False
                    break
                if r[0] == 'present':
                    want = r
                    owner = m
                    break
            if not determinate:
                acc.count('chain_lookup_skipped_case_indeterminate')
                continue
            if k <= 2:
                # the same members each wrapped in a chain of their own (a chain is a file system and may be a member):
                # the outer chain answers exactly like the flat one
                if nested_chain[0] is None:
                    nested_chain[0] = FileSystemChain(*[FileSystemChain((m.fs, m.prefix)) if m.prefix else FileSystemChain(m.fs) for m in members])
                for op in LOOKUP_OPS:
                    obs_n = observe_lookup(nested_chain[0], op, q)
                    acc.evaluations += 1
                    if not judge_lookup(obs_n, want)[0] and judge_lookup(observe_lookup(chain, op, q), want)[0]:
                        acc.fail('chain_nested_differs', chain_case(members, op=op, base=base, q=q),
                                 f'chain {desc}: the flat chain answers {op}({q!r}) correctly, the same members each wrapped in their own '
                                 f'chain give {obs_n}', op=op, cause='nested_chain')
                        break
            for op in LOOKUP_OPS:
                if only and only['op'] != op:
                    continue
                obs = observe_lookup(chain, op, q)
                ok, diff = judge_lookup(obs, want)
                acc.evaluations += 1
                if want[0] == 'present':
                    acc.nontrivial += 1
                acc.outcome(('chain', op, feats, want[0], obs[0], k))
                if ok:
                    continue
                # attribution: does a member, asked directly for the name the chain hands it, already answer wrong?
                bad_members = []
                for m in members:
                    full = os.path.join(m.prefix, q).replace('\\', '/')
                    mo = observe_lookup(m.fs, op, full)
                    mw = m.lookup(q)
                    if mw is not None and not judge_lookup(mo, mw)[0]:
                        bad_members.append(m.backend)
                acc.fail('chain_lookup', chain_case(members, op=op, base=base, q=q),
                         f'chain {desc}: {op}({q!r}) -> {obs}; model: '
                         f'{"absent" if owner is None else "content of " + owner.id + " " + repr(want[1])}',
                         op=op, cause=('member_lookup' if bad_members else 'chain'),
                         **({'member_backends': '+'.join(sorted(set(bad_members)))} if bad_members else
                            {'diff': diff, 'owner_prefix': owner.prefix_kind if owner else 'none'}))
    # ---- de-duplicated walk
    for folder in CHAIN_FOLDERS:
        if only and (only['op'] != 'walk' or only['q'] != folder):
            continue
        expected: dict = {}
        owner_of: dict = {}
        determinate = True
        for m in members:
            lst = m.listing(folder)
            if lst is None:
                determinate = False
                break
            for rel, data in lst.items():
                if rel not in expected:
                    expected[rel] = data
                    owner_of[rel] = m
        if not determinate:
            acc.count('chain_walk_skipped_case_indeterminate')
            continue
        obs = observe_walk(chain, folder)
        ok, diff, detail = judge_walk(obs, expected, '', False) if not isinstance(obs, tuple) else (False, 'exception', obs[1])
        acc.evaluations += 1
        if expected:
            acc.nontrivial += 1
        acc.outcome(('chain', 'walk', folder, len(expected), ok, diff, k))
        if ok and len(obs) >= 2:
            # two walks of the same chain alive at once (lock-step and nested): each yields what a lone walk yields
            lone = [o[0] for o in obs]
            try:
                w1, w2 = chain.walk_folder(folder), chain.walk_folder(folder)
                got1, got2 = [], []
                for fa, fb in itertools.zip_longest(itertools.islice(w1, WALK_CAP), itertools.islice(w2, WALK_CAP)):
                    if fa is not None:
                        got1.append(fa.path)
                    if fb is not None:
                        got2.append(fb.path)
                nested_outer, nested_inner = [], None
                for f in itertools.islice(chain.walk_folder(folder), WALK_CAP):
                    nested_outer.append(f.path)
                    if nested_inner is None:
                        nested_inner = [g.path for g in itertools.islice(chain.walk_folder(folder), WALK_CAP)]
                acc.evaluations += 1
                for label, got in (('first of two lock-step walks', got1), ('second of two lock-step walks', got2),
                                   ('outer walk around a nested walk', nested_outer), ('nested inner walk', nested_inner)):
                    if got != lone:
                        acc.fail('chain_walk_interleaved', chain_case(members, op='walk', q=folder),
                                 f'chain {desc}: walk_folder({folder!r}) alone yields {lone}; as the {label} it yields {got}',
                                 op='walk', cause='chain', diff='interleaved')
                        break
            except Exception as exc:  # noqa: BLE001
                acc.fail('chain_walk_interleaved', chain_case(members, op='walk', q=folder),
                         f'chain {desc}: interleaved walk_folder({folder!r}) raised {type(exc).__name__}: {exc}', op='walk', cause='chain', diff='exception')
        if ok:
            continue
        bad_members = []
        for m in members:
            full = os.path.join(m.prefix, folder).replace('\\', '/')
            mo = observe_walk(m.fs, full)
            if not judge_walk(mo, m.model.keys(m.exact), full, m.exact)[0]:
                bad_members.append(m)
        acc.fail('chain_walk', chain_case(members, op='walk', q=folder),
                 f'chain {desc}: walk_folder({folder!r}) {detail}; expected names relative to each member\'s prefix, '
                 f'each once, from the first member holding it',
                 op='walk', cause=('member_walk' if bad_members else 'chain'),
                 **({'member_backends': '+'.join(sorted({m.backend for m in bad_members}))} if bad_members else
                    {'diff': diff, 'culprit_prefix': walk_culprit(obs, expected, owner_of, members)}))


def chain_history_battery(acc: core.Acc, members: list, only: dict | None = None) -> None:
    """Interleaved histories: look names up BETWEEN add_sys calls (priority and plain), and mount a member that is already
    in the chain a second time with priority=True.  After every step the chain must answer from the first member, in
    its current order, that has the name."""
    k = len(members)
    desc = [f'{m.id}(prefix={m.prefix!r})' for m in members]
    queries = [q for base in CHAIN_QUERIES[:9] for q in (base, base.upper())]
    for flags in itertools.product([False, True], repeat=k):
        if only and list(flags) != only.get('flags'):
            continue
        ch = FileSystemChain()
        order: list = []
        steps = [(m, pr) for m, pr in zip(members, flags)] + [(members[0], True)]     # last step: re-mount the first-added member in front
        for si, (m, pr) in enumerate(steps):
            if m.prefix:
                ch.add_sys(m.fs, m.prefix, priority=pr)
            elif pr:
                ch.add_sys(m.fs, priority=True)
            else:
                ch.add_sys(m.fs)
            if pr:
                order.insert(0, m)
            else:
                order.append(m)
            for q in queries:
                want = ('absent',)
                determinate = True
                for mm in order:
                    r = mm.lookup(q)
                    if r is None:
                        determinate = False
                        break
                    if r[0] == 'present':
                        want = r
                        break
                if not determinate:
                    continue
                for op in ('in', 'getitem'):
                    obs = observe_lookup(ch, op, q)
                    ok, diff = judge_lookup(obs, want)
                    acc.evaluations += 1
                    if ok:
                        continue
                    # only a chain-level fault is reported here; member faults are the other battery's business
                    member_bad = any(mw is not None and not judge_lookup(observe_lookup(mm.fs, op, os.path.join(mm.prefix, q).replace('\\', '/')), mw)[0]
                                     for mm in order for mw in [mm.lookup(q)])
                    if member_bad:
                        continue
                    acc.fail('chain_history_lookup', chain_case(members, op='history', flags=list(flags), step=si, q=q),
                             f'chain built step by step from {desc} with priority flags {flags}'
                             f'{" then the first member re-mounted with priority" if si == k else ""}: after step {si} {op}({q!r}) -> {obs}; '
                             f'expected {want[0]} {want[1] if len(want) > 1 else ""}', op=op, cause='chain_history', diff=diff,
                             remount=(si == k))
                    break
        acc.nontrivial += 1


def walk_culprit(obs, expected: dict, owner_of: dict, members: list) -> str:
    """Prefix kind of the member behind the first wrong item of a chain walk (file contents name their member)."""
    by_id = {m.id: m for m in members}
    if isinstance(obs, tuple):
        return 'unknown'
    seen = set()
    for p, data, _ in obs:
        k = norm(p)
        if k not in expected or k in seen or expected[k] != data:
            mid = data[1:data.index(b'|')].decode() if data.startswith(b'<') and b'|' in data else ''
            return by_id[mid].prefix_kind if mid in by_id else 'unknown'
        seen.add(k)
    for k in sorted(expected):
        if k not in seen:
            return owner_of[k].prefix_kind
    return 'unknown'


def same_systems(got: list, want: list) -> bool:
    return len(got) == len(want) and all(g[0] is w[0] and g[1] == w[1] for g, w in zip(got, want))


# ---------------------------------------------------------------------------------------------
# shards

def extras_battery(acc: core.Acc, workdir: str) -> None:
    """(1) names differing only in case inside ONE member: the chain's de-duplicated walk (and iteration) lists the folded name once,
    for chains of one and of two members, every backend; (2) a zip file system built over a ZipFile object the caller owns: dropping one
    such file system leaves the archive, and other file systems sharing it, usable."""
    import gc
    twins = [('cfg/Notes.txt', b'<upper>'), ('cfg/notes.TXT', b'<lower>'), ('a.txt', b'<a>')]
    other = [('b.txt', b'<b>')]
    for backend in BACKENDS:
        p1 = materialise(os.path.join(workdir, 'twins_' + backend), backend, twins if backend != 'vpk' else vpk_order(twins))
        p2 = materialise(os.path.join(workdir, 'other_' + backend), backend, other)
        for shape in ('one_member', 'two_members', 'two_members_twins_last', 'prefixed'):
            acc.evaluations += 1
            acc.nontrivial += 1
            case = {'part': 'extras', 'what': 'case_twins', 'backend': backend, 'shape': shape}
            try:
                f1, f2 = open_fs(backend, p1, twins), open_fs(backend, p2, other)
                chain = {'one_member': lambda: FileSystemChain(f1), 'two_members': lambda: FileSystemChain(f1, f2),
                         'two_members_twins_last': lambda: FileSystemChain(f2, f1), 'prefixed': lambda: FileSystemChain((f1, 'cfg'))}[shape]()
                for how, names in (('walk_folder("")', [f.path for f in chain.walk_folder('')]), ('iteration', [f.path for f in chain]),
                                   ('walk_folder("cfg")', [f.path for f in chain.walk_folder('cfg')] if shape != 'prefixed' else [])):
                    folded = [norm(n) for n in names]
                    if len(folded) != len(set(folded)):
                        acc.fail('walk_duplicate', dict(case, how=how), f'{backend} member holding cfg/Notes.txt and cfg/notes.TXT, chain {shape}: {how} lists {names}: '
                                 f'a name (compared without case) more than once', backend=backend, op='walk')
                        break
            except Exception as exc:  # noqa: BLE001
                acc.fail('walk_raises', case, f'{backend} chain {shape} with case twins: {type(exc).__name__}: {exc}', backend=backend, op='walk')
    # (3) in-memory file systems holding TEXT: two systems (alone, and as the two members of a chain) with the same name - in
    # every case/slash spelling - and different text or a different encoding, read one after the other in both orders and through
    # every reading operation; each answers with its own text in its own encoding, and a zip with the same bytes agrees
    texts = [('utf8', 'gr\u00fcn'), ('utf8', 'blau'), ('latin-1', 'gr\u00fcn'), ('utf-16-le', 'blau')]
    for (enc1, t1), (enc2, t2) in itertools.permutations(texts, 2):
        for n1, n2 in (('cfg/a.txt', 'cfg/a.txt'), ('cfg/a.txt', 'CFG\\A.TXT')):
            for first_op in ('open_bin', 'open_str', 'getitem'):
                acc.evaluations += 1
                acc.nontrivial += 1
                case = {'part': 'extras', 'what': 'virtual_text_pair', 'first': [enc1, t1, n1], 'second': [enc2, t2, n2], 'first_op': first_op}
                try:
                    v1 = VirtualFileSystem({n1: t1}, encoding=enc1)
                    v2 = VirtualFileSystem({n2: t2}, encoding=enc2)
                    if first_op == 'open_bin':
                        got1 = read_all(lambda: v1.open_bin('cfg/a.txt'))
                    elif first_op == 'open_str':
                        with v1.open_str('cfg/a.txt') as fh:
                            got1 = fh.read().encode(enc1)
                    else:
                        got1 = read_all(v1['cfg/a.txt'].open_bin)
                    got2 = read_all(lambda: v2.open_bin('cfg/a.txt'))
                    with v2.open_str('cfg/a.txt') as fh:
                        got2s = fh.read()
                    chain = FileSystemChain(v2, v1)
                    got_chain = read_all(lambda: chain.open_bin('cfg/a.txt'))
                    want1, want2 = t1.encode(enc1), t2.encode(enc2)
                    if got1 != want1 or got2 != want2 or got2s != t2 or got_chain != want2:
                        acc.fail('virtual_text_wrong', case, f'VirtualFileSystem({{{n1!r}: {t1!r}}}, {enc1}) read by {first_op} gave {got1!r}; then '
                                 f'VirtualFileSystem({{{n2!r}: {t2!r}}}, {enc2}).open_bin gave {got2!r} (expected {want2!r}), open_str {got2s!r}, '
                                 f'chain(second, first).open_bin {got_chain!r}', backend='virtual', op='open_bin')
                except Exception as exc:  # noqa: BLE001
                    acc.fail('virtual_text_wrong', case, f'{type(exc).__name__}: {exc}', backend='virtual', op='open_bin')
    # (2)
    files = [('materials/x.vmt', b'<x>'), ('a.txt', b'<a>')]
    zpath = materialise(os.path.join(workdir, 'shared_zip'), 'zip', files)
    for dropped in ('first', 'second', 'prefixed_chain_member'):
        acc.evaluations += 1
        acc.nontrivial += 1
        case = {'part': 'extras', 'what': 'shared_zipfile', 'dropped': dropped}
        zf = zipfile.ZipFile(zpath)
        try:
            fs_a = ZipFileSystem(zpath, zf)
            fs_b = ZipFileSystem(zpath, zf)
            if dropped == 'first':
                keep, fs_a = fs_b, None
            elif dropped == 'second':
                keep, fs_b = fs_a, None
            else:
                keep = fs_a
                ch = FileSystemChain((fs_b, 'materials'))
                list(ch.walk_folder(''))
                ch = fs_b = None
            gc.collect()
            got = {norm(f.path): read_all(lambda f=f: f.open_bin()) for f in keep.walk_folder('')}
            direct = zf.read('a.txt')
            if got != {norm(n): d for n, d in files} or direct != b'<a>':
                acc.fail('content_mismatch', case, f'two file systems over one caller-owned ZipFile, {dropped} dropped: the other now reads {got}', backend='zip', op='open_bin')
        except Exception as exc:  # noqa: BLE001
            acc.fail('lookup_raises', case, f'two file systems over one caller-owned ZipFile; after the {dropped} one was dropped and collected, the other '
                     f'(or the ZipFile itself) fails: {type(exc).__name__}: {exc}', backend='zip', op='open_bin')
        finally:
            zf.close()


_SCRATCH = ''


def shard(spec) -> core.Acc:
    acc = core.Acc()
    if spec[0] == 'extras':
        work = os.path.join(_SCRATCH, 'extras')
        extras_battery(acc, work)
        shutil.rmtree(work, ignore_errors=True)
        return acc
    if spec[0] == 'set':
        _, idx, names = spec
        work = os.path.join(_SCRATCH, 'sets', str(idx))
        backend_battery(acc, list(names), work)
        shutil.rmtree(work, ignore_errors=True)
        acc.count('file_sets')
        if idx % 17 == 0:
            acc.sample({'part': 'backend', 'names': list(names), 'backends': BACKENDS,
                        'lookups': 'all spellings of ' + str(len(UNIVERSE + ABSENT)) + ' names x 4 ops',
                        'walks': 'all spellings of ' + str(len(FOLDER_BASES)) + ' folders'}, 3)
    else:
        _, head, k = spec
        members = pool(os.path.join(_SCRATCH, 'pool'))
        keys = sorted(members)
        rest = [x for x in keys if x not in head]
        n = 0
        for tail in itertools.permutations(rest, k - len(head)):
            chain_battery(acc, [members[x] for x in head + tail])
            if k <= 2:
                chain_history_battery(acc, [members[x] for x in head + tail])
            n += 1
        acc.count('chains', n)
        acc.count(f'chains_of_{k}', n)
        if n and head[0] == keys[0]:
            acc.sample({'part': 'chain', 'members': [members[x].id for x in head + tail],
                        'prefixes': [members[x].prefix for x in head + tail]}, 2)
    return acc


def run(ctx: core.Ctx) -> None:
    global _SCRATCH
    _SCRATCH = ctx.scratch
    max_names = ctx.pick(3, 4)
    max_chain = ctx.pick(3, 4)
    shards: list = []
    idx = 0
    for r in range(0, max_names + 1):
        for names in itertools.combinations(UNIVERSE, r):
            shards.append(('set', idx, names))
            idx += 1
    build_pool(os.path.join(ctx.scratch, 'pool'))
    keys = sorted((t, b) for t in range(len(TEMPLATES)) for b in BACKENDS)
    for k in range(1, max_chain + 1):
        if k <= 2:
            for a in keys:
                shards.append(('chain', (a,), k))
        else:
            for a, b in itertools.permutations(keys, 2):
                shards.append(('chain', (a, b), k))
    shards.append(('extras',))
    # heavy shards first (better packing); the seed only rotates within that order
    s = ctx.seed % len(shards)
    shards = shards[s:] + shards[:s]
    shards.sort(key=lambda sp: -(sp[2] if sp[0] == 'chain' else 0))
    core.par_map(shard, shards, ctx.acc)
    ctx.rule = (f"part 'backend': every file set of <= {max_names} names from {UNIVERSE} (distinct contents) x backends "
                f"{BACKENDS} (the directory backend both constrained and with constrain_path=False; skipped for sets holding two names that differ only in case; for those sets "
                f"files are stored in the VPK writer's order and only agreement on the winner is demanded) x lookups "
                f"{LOOKUP_OPS} of every spelling (exact/upper/lower x slash/backslash x './' prefix; directory backend: "
                f"exact case only) of every universe name and of {ABSENT} x walk_folder of every spelling (additionally x "
                f"no/'/'/'\\' trailing separator) of {FOLDER_BASES}.  part 'chain': every ordered chain of <= {max_chain} "
                f"distinct members from a pool of {len(TEMPLATES)} (file set, subfolder prefix) templates x 4 backends, each built "
                f"through the constructor and through every priority=True/False add_sys history (member order checked; for chains of <= 2 also with lookups after every add_sys step and a final re-mount of the first member with priority), x "
                f"lookups {LOOKUP_OPS} of every case/slash spelling of {CHAIN_QUERIES} x de-duplicated walk_folder of {CHAIN_FOLDERS}; "
                f"every non-trivial chain walk additionally as two lock-step walks and as a walk nested inside another walk of the same chain (each must yield what a lone walk yields); names with a leading separator must get the same answer from every archive-like backend; queries whose answer from a directory member depends on the host's case rules are skipped and counted.  "
                f"Each (set, backend, op, spelling) / (chain, op, spelling) is met once.  Non-trivial = the model expects a file "
                f"(lookup) / a non-empty listing (walk), or the oracle failed.")
    ctx.assumptions.append('POSIX host with a case-sensitive tmpfs; VPK version 1 directory file with embedded data; zip '
                           'written by zipfile with an explicit entry for every folder; chain members come from a fixed pool of 24.')
    ctx.coverage_extra['file_sets'] = ctx.acc.counters.get('file_sets', 0)
    ctx.coverage_extra['chains'] = ctx.acc.counters.get('chains', 0)


def replay(case: dict) -> list:
    acc = core.Acc()
    base = os.path.join('/dev/shm', f'verif-C19-replay-{os.getpid()}')
    shutil.rmtree(base, ignore_errors=True)
    try:
        if case['part'] == 'extras':
            extras_battery(acc, os.path.join(base, 'extras'))
            fails = [f for f in acc.all_failures() if {k: v for k, v in f.case.items() if k != 'how'} == {k: v for k, v in case.items() if k != 'how'}]
        elif case['part'] == 'backend':
            backend_battery(acc, list(case['names']), os.path.join(base, 'set'),
                            only={'backend': case['backend'], 'op': case['op'], 'base': case['base']})
            fails = [f for f in acc.all_failures()
                     if f.case.get('feats') == case.get('feats') and f.case['op'] == case['op']
                     and f.case['base'] == case['base'] and f.case['backend'] == case['backend']
                     and f.case.get('lookup_op') == case.get('lookup_op')]
        else:
            pooldir = os.path.join(base, 'pool')
            members = []
            for t, b in case['members']:
                m = Member(t, b)
                materialise(os.path.join(pooldir, m.id.replace(':', '_')), b, m.files)
                m.open(pooldir)
                members.append(m)
            only = {'op': case['op'], 'base': case.get('base'), 'q': case.get('q'), 'flags': case.get('flags')}
            if case['op'] == 'history':
                chain_history_battery(acc, members, only=only)
            else:
                chain_battery(acc, members, only=only)
            fails = acc.all_failures()
            if case['op'] == 'order':
                fails = [f for f in fails if f.case.get('flags') == case.get('flags')]
    finally:
        shutil.rmtree(base, ignore_errors=True)
    return fails
