"""C07 — VMF class/name indexes always agree with the entities in the map.

Explicit-state BFS over histories of real VMF/Entity operations (two maps, up to MAXH entity handles).
In every reachable state by_class / by_target / search() are compared with a scan of
vmf.entities + [vmf.spawn].
"""
from __future__ import annotations

import gc

from srctools.keyvalues import Keyvalues
from srctools.vmf import VMF, Entity

from mcv import core, bfs

PROPERTY = 'C07'
LEVEL = 'model_checking'

CLASSES = ['a', 'A', 'b', '']      # the blank class is a class like any other (indexed under '')
NAMES = ['', 'n', 'N', 'm', 'a', 'Stra\u00dfe']     # 'a' is also a classname: a name and a class may coincide
QUERIES = ['n', 'N', 'n*', 'm', 'a', 'A', 'b', '', '*', 'worldspawn', 'info_null', 'strasse', 'STRASSE', 'stra*']
MAXH = 3


class State:
    __slots__ = ('vmfs', 'h', 'problems')

    def __init__(self) -> None:
        self.vmfs = [VMF(), VMF()]
        self.h: list[Entity] = []
        self.problems: list[tuple[str, str]] = []


_BSP_BASE: dict = {}


def _through_entity_lump(vmf: VMF) -> VMF:
    import os
    from srctools.bsp import BSP, BSP_LUMPS
    from checks import bspgen
    if _BSP_BASE.get('pid') != os.getpid():
        d = os.path.join('/dev/shm', f'verif-C07-{os.getpid()}')
        os.makedirs(d, exist_ok=True)
        _BSP_BASE.update(pid=os.getpid(), path=os.path.join(d, 'base.bsp'))
        with open(_BSP_BASE['path'], 'wb') as f:
            f.write(bspgen.empty_file('v20'))
    data = BSP.write_ent_data(vmf, False, _show_dep=False)
    bsp = BSP(_BSP_BASE['path'])
    bsp.lumps[BSP_LUMPS.ENTITIES].data = data
    return bsp.ents


def _lump_can_carry(vmf: VMF) -> bool:
    # (the lump is ASCII, and its reader insists on a first entity spelled exactly 'worldspawn' - both are the format's
    # preconditions, not this property's)
    return vmf.spawn['classname'] == 'worldspawn' and all(k.isascii() and v.isascii() for e in [vmf.spawn, *vmf.entities] for k, v in e.items())


def vmf_of(st: State, ent: Entity) -> int:
    return 0 if ent.map is st.vmfs[0] else 1


def in_map(ent: Entity) -> bool:
    return any(e is ent for e in ent.map.entities)


def apply(st: State, op: list) -> None:
    kind = op[0]
    try:
        if kind == 'create':
            _, v, cls, name = op
            kw = {} if name is None else {'targetname': name}
            st.h.append(st.vmfs[v].create_ent(cls, **kw))
        elif kind == 'new':
            _, v, cls, name = op
            keys = {'classname': cls}
            if name is not None:
                keys['TargetName'] = name
            st.h.append(Entity(st.vmfs[v], keys=keys))
        elif kind == 'add':
            e = st.h[op[1]]
            e.map.add_ent(e)
        elif kind == 'adds':
            e = st.h[op[1]]
            e.map.add_ents([e])
        elif kind == 'adds_gen':
            e = st.h[op[1]]
            e.map.add_ents(x for x in [e])      # any iterable is accepted, also a one-shot one
        elif kind == 'remove':
            e = st.h[op[1]]
            e.map.remove_ent(e)
        elif kind == 'eremove':
            st.h[op[1]].remove()
        elif kind == 'set':
            _, h, key, val = op
            st.h[h][key] = val
        elif kind == 'update':
            _, h, d = op
            st.h[h].update(d)
        elif kind == 'del':
            _, h, key = op
            del st.h[h][key]
        elif kind == 'deltuple':
            del st.h[op[1]]['origin', 'TargetName', 'nope']
        elif kind == 'keysset':
            import warnings
            with warnings.catch_warnings():
                warnings.simplefilter('ignore', DeprecationWarning)
                try:
                    st.h[op[1]].keys = dict(op[2])      # deprecated but public: replace every key
                except ValueError:
                    if st.h[op[1]] is not st.h[op[1]].map.spawn:
                        raise
        elif kind == 'clear_keys':
            try:
                st.h[op[1]].clear_keys()
            except ValueError:
                if st.h[op[1]] is not st.h[op[1]].map.spawn:
                    raise
        elif kind == 'setdefault':
            st.h[op[1]].setdefault(op[2], op[3])
        elif kind == 'popitem':
            try:
                st.h[op[1]].popitem()
            except KeyError:
                pass        # the classname cannot be removed: refusing is fine, the indexes must still agree
        elif kind == 'update_ent':
            # update() given another Entity (a mapping like any other) as the source
            _, h, h2 = op
            if h != h2:
                st.h[h].update(st.h[h2])
        elif kind == 'update_pairs':
            st.h[op[1]].update([('TargetName', 'm'), ('classname', 'A')])
        elif kind == 'update_kw':
            st.h[op[1]].update(TargetName='n', ClassName='b')
        elif kind == 'pop':
            _, h, key = op
            try:
                st.h[h].pop(key)
            except KeyError:
                if key.casefold() != 'classname':
                    raise
        elif kind == 'clear':
            try:
                st.h[op[1]].clear()
            except ValueError:
                if st.h[op[1]] is not st.h[op[1]].map.spawn:
                    raise
        elif kind == 'unique':
            st.h[op[1]].make_unique()
        elif kind == 'copy':
            _, h, v = op
            c = st.h[h].copy(vmf_file=st.vmfs[v])
            st.vmfs[v].add_ent(c)
            st.h.append(c)
        elif kind == 'spawnclass':
            _, v, val = op
            try:
                st.vmfs[v].spawn['classname'] = val
            except ValueError:
                pass
            else:
                if val.casefold() != 'worldspawn':
                    st.problems.append(('spawn_reclass_accepted', f"spawn['classname'] = {val!r} did not raise"))
        elif kind == 'spawnname':
            _, v, val = op
            st.vmfs[v].spawn['targetname'] = val
        elif kind in ('reparse', 'relump'):
            v = op[1]
            old = st.vmfs[v]
            if kind == 'relump':
                # the other reader that builds a VMF: the map written as a BSP entity lump and read back through BSP.ents
                new = _through_entity_lump(old)
            else:
                new = VMF.parse(Keyvalues.parse(old.export(inc_version=False)))
            st.vmfs[v] = new
            # handles continue in the parsed map: in-map entities by position, others are dropped
            pos = {id(e): i for i, e in enumerate(old.entities)}
            newh = []
            for e in st.h:
                if e.map is old:
                    if id(e) in pos and pos[id(e)] < len(new.entities):
                        newh.append(new.entities[pos[id(e)]])
                else:
                    newh.append(e)
            st.h = newh
        elif kind == 'iter_class_remove':
            _, v, c = op
            for e in st.vmfs[v].by_class[c]:
                e.remove()
        elif kind == 'iter_class_reclass':
            _, v, c, c2 = op
            for e in st.vmfs[v].by_class[c]:
                e['classname'] = c2
        elif kind == 'iter_target_rename':
            _, v, n, n2 = op
            for e in st.vmfs[v].by_target[n]:
                e['targetname'] = n2
        elif kind == 'iter_class_grow':
            # nested mutation: while visiting original members add entities to the same index set; while visiting
            # an added member change the set again (what nested instance expansion does)
            # (what is done to a member depends on the member only, never on the order the set happens to be visited in:
            # entities hash by identity, so that order differs between processes)
            _, v, c = op
            hidx = {id(e): i for i, e in enumerate(st.h)}
            again = False
            for e in st.vmfs[v].by_class[c]:
                i = hidx.get(id(e))
                if i is None:
                    # a member that was added during this very iteration (the set's second phase): change the set once more
                    if not again:
                        again = True
                        st.vmfs[v].create_ent(c, targetname='g2')
                    continue
                if i % 2 == 0:
                    st.vmfs[v].create_ent(c, targetname='g')
                else:
                    e.remove()
        elif kind == 'iter_target_grow':
            _, v, nm = op
            hidx = {id(e): i for i, e in enumerate(st.h)}
            again = False
            for e in st.vmfs[v].by_target[nm]:
                i = hidx.get(id(e))
                if i is None:
                    if not again:
                        again = True
                        st.vmfs[v].create_ent('b', targetname=nm.upper() if nm else 'N')
                    continue
                if i % 2 == 0:
                    st.vmfs[v].create_ent('b', targetname=nm.upper() if nm else 'N')
                else:
                    e['targetname'] = 'm'
        elif kind in ('iter_class_swap', 'iter_target_swap'):
            # while the set is visited every original member leaves it and one new entity joins it (the set never grows): a
            # lookup by iteration still returns the entities that joined - each exactly once - and every original member once
            _, v, c = op
            index = st.vmfs[v].by_class if kind == 'iter_class_swap' else st.vmfs[v].by_target
            key = 'classname' if kind == 'iter_class_swap' else 'targetname'
            hidx = {id(e): i for i, e in enumerate(st.h)}
            start = [e for e in st.vmfs[v].entities if (e[key].casefold() or (None if key == 'targetname' else '')) == c]
            joiners: list = []
            visits: dict = {}
            the_set = index[c]
            detached = False
            for e in the_set:
                visits[id(e)] = visits.get(id(e), 0) + 1
                if any(e is j for j in joiners):
                    continue
                # the joiner arrives before the member leaves, so the set is never empty (an emptied set is dropped from the mapping
                # and replaced by a new object later: what an iterator of the dropped object returns is not demanded here)
                joiners.append(st.vmfs[v].create_ent(c, targetname='j') if key == 'classname' else st.vmfs[v].create_ent('b', targetname=c.upper()))
                e[key] = 'b' if key == 'classname' else 'm'
                if index.get(c) is not the_set:
                    detached = True
            for what, ents in (('original member', start), ('entity that joined during the iteration', [] if detached else joiners)):
                for e in ents:
                    if visits.get(id(e), 0) != 1:
                        st.problems.append(('iteration_missed_member', f'iterating {key} index {c!r} while each visited member leaves and a new one joins: '
                                            f'an {what} was returned {visits.get(id(e), 0)} times ({len(start)} original, {len(joiners)} joined)'))
                        break
        elif kind == 'remove_foreign':
            # remove_ent() of an entity that belongs to the OTHER map: tolerated as "already removed"; the entity's own map still finds it
            e = st.h[op[1]]
            st.vmfs[1 - vmf_of(st, e)].remove_ent(e)
        elif kind == 'iter_search_remove':
            _, v, q = op
            for e in st.vmfs[v].search(q):
                if e is st.vmfs[v].spawn:
                    try:
                        e.remove()
                    except ValueError:
                        continue   # removing worldspawn may be refused
                else:
                    e.remove()
        else:
            raise AssertionError(op)
    except Exception as exc:  # noqa: BLE001 - an operation of the public API failed unexpectedly
        st.problems.append(('op_raised', f'{op} raised {type(exc).__name__}: {exc}'))


class Model(bfs.Model):
    def __init__(self, maxh: int = MAXH, rich: bool = True) -> None:
        self.maxh = maxh
        self.rich = rich

    def build(self, history: list) -> State:
        st = State()
        for op in history:
            apply(st, op)
        return st

    def dispose(self, state: State) -> None:
        state.h.clear()
        state.vmfs.clear()

    def enabled(self, st: State) -> list:
        ops: list = []
        if len(st.h) < self.maxh:
            for cls in CLASSES:
                for name in (None, 'n', 'N'):
                    ops.append(['create', 0, cls, name])
            ops.append(['create', 1, 'a', 'n'])
            ops.append(['new', 0, 'A', 'N'])
            ops.append(['new', 0, 'b', None])
        for i, e in enumerate(st.h):
            present = in_map(e)
            if not present:
                ops.append(['add', i])
                ops.append(['adds', i])
                ops.append(['adds_gen', i])
            ops.append(['remove', i])
            ops.append(['remove_foreign', i])
            if present:
                ops.append(['eremove', i])
            for c in CLASSES:
                ops.append(['set', i, 'classname', c])
            ops.append(['set', i, 'ClassName', 'b'])
            for n in NAMES:
                ops.append(['set', i, 'targetname', n])
            ops.append(['set', i, 'TargetName', 'm'])
            for falsy in (0, False, 0.0):        # values are converted to text: a false-y number is the name '0' / '0.0', not a blank
                ops.append(['set', i, 'targetname', falsy])
            ops.append(['update', i, {'targetname': 'N', 'classname': 'B'}])
            ops.append(['del', i, 'targetname'])
            ops.append(['del', i, 'TARGETNAME'])
            ops.append(['pop', i, 'targetname'])
            ops.append(['pop', i, 'Targetname'])
            ops.append(['pop', i, 'classname'])
            ops.append(['clear', i])
            ops.append(['unique', i])
            ops.append(['deltuple', i])
            ops.append(['keysset', i, {'classname': 'B', 'targetname': 'm'}])
            ops.append(['keysset', i, {'classname': 'a'}])
            ops.append(['clear_keys', i])
            ops.append(['setdefault', i, 'targetname', 'm'])
            ops.append(['setdefault', i, 'TargetName', 'N'])
            ops.append(['popitem', i])
            ops.append(['update_kw', i])
            ops.append(['update_pairs', i])
            for j in range(len(st.h)):
                if j != i:
                    ops.append(['update_ent', i, j])
            if len(st.h) < self.maxh:
                ops.append(['copy', i, 0])
                ops.append(['copy', i, 1])
        ops.append(['spawnclass', 0, 'x'])
        ops.append(['spawnclass', 0, 'WorldSpawn'])
        ops.append(['spawnname', 0, 'N'])
        ops.append(['reparse', 0])
        if _lump_can_carry(st.vmfs[0]):
            ops.append(['relump', 0])
        if self.rich:
            ops.append(['iter_class_remove', 0, 'a'])
            ops.append(['iter_class_reclass', 0, 'a', 'A'])
            ops.append(['iter_class_reclass', 0, 'a', 'b'])
            ops.append(['iter_target_rename', 0, 'n', 'N'])
            ops.append(['iter_target_rename', 0, 'n', 'm'])
            ops.append(['iter_target_rename', 0, None, 'n'])
            ops.append(['iter_class_grow', 0, 'a'])
            ops.append(['iter_target_grow', 0, 'n'])
            ops.append(['iter_class_swap', 0, 'a'])
            ops.append(['iter_target_swap', 0, 'n'])
            ops.append(['iter_search_remove', 0, 'n'])
            ops.append(['iter_search_remove', 0, 'a'])
            ops.append(['iter_search_remove', 0, 'n*'])
        return ops

    def canon(self, st: State):
        """Everything the index logic can read: per handle its map, position in the entity list and exact key
        dict (spelling and order matter to the lookup loops); per map the spawn keys and the raw contents of
        both indexes expressed over handle numbers.  Entity IDs, outputs etc. are never read by index code."""
        hid = {id(e): i for i, e in enumerate(st.h)}
        out = []
        for e in st.h:
            v = vmf_of(st, e)
            pos = next((i for i, x in enumerate(e.map.entities) if x is e), -1)
            # plus every scalar attribute of the entity object other than its ID (a flag or counter kept beside the key dict is state the
            # index logic may read: two states that differ in it do not have the same futures)
            scal = tuple(sorted((k, repr(x)) for k, x in vars(e).items() if k != 'id' and type(x) in (bool, int, str, float, type(None))))
            out.append((v, pos, tuple(e._keys.items()), scal))
        maps = []
        for vmf in st.vmfs:
            def ref(e):
                if e is vmf.spawn:
                    return 'S'
                return hid.get(id(e), 'X')
            bc = sorted((repr(k), sorted(map(str, map(ref, s)))) for k, s in vmf.by_class.items())
            bt = sorted((repr(k), sorted(map(str, map(ref, s)))) for k, s in vmf.by_target.items())
            extra = [tuple(e._keys.items()) for e in vmf.entities if id(e) not in hid]
            maps.append((tuple(vmf.spawn._keys.items()), bc, bt, extra, len(vmf.entities)))
        return (out, maps, len(st.problems))

    def check(self, st: State, history: list, acc: core.Acc) -> None:
        acc.evaluations += 1
        case = {'history': history}
        for kind, msg in st.problems:
            acc.fail(kind, case, f'history={history}\n {msg}', op=history[-1][0] if history else '')
        st.problems = []
        label = {id(e): f'h{i}' for i, e in enumerate(st.h)}
        nontrivial = False
        for vi, vmf in enumerate(st.vmfs):
            scan = list(vmf.entities) + [vmf.spawn]
            label[id(vmf.spawn)] = f'spawn{vi}'
            ids = [id(e) for e in scan]
            if len(set(ids)) != len(ids):
                # the same entity twice in the list: only reachable through API misuse the alphabet avoids
                acc.fail('duplicate_in_entities', case, f'history={history}: an entity is listed twice in vmf{vi}.entities')
            if len(vmf.entities) > 0:
                nontrivial = True

            def lab(e):
                return label.get(id(e), f'<{e["classname"]}:{e["targetname"]}>')

            def fold_class(e):
                return e['classname'].casefold()

            def fold_name(e):
                return e['targetname'].casefold() or None

            # --- by_class
            snapshot = {k: set(v) for k, v in list(vmf.by_class.items())}
            keys = set(snapshot) | {fold_class(e) for e in scan} | {'a', 'b', 'worldspawn', 'info_null'}
            for k in sorted(keys, key=repr):
                got = snapshot.get(k, set())
                want = {e for e in scan if fold_class(e) == k} if k == k.casefold() else None
                stale = [e for e in got if not any(e is s for s in scan) or fold_class(e) != k.casefold()]
                if stale:
                    acc.fail('by_class_stale', case,
                             f'history={history}\n vmf{vi}.by_class[{k!r}] returns {sorted(map(lab, got))} but '
                             f'{sorted(map(lab, stale))} are not in the map with that class', op=history[-1][0])
                    break
                if want is not None and got != want:
                    acc.fail('by_class_missing', case,
                             f'history={history}\n vmf{vi}.by_class[{k!r}] = {sorted(map(lab, got))}, scan says {sorted(map(lab, want))}',
                             op=history[-1][0])
                    break
            # --- by_target
            snapshot = {k: set(v) for k, v in list(vmf.by_target.items())}
            keys = set(snapshot) | {fold_name(e) for e in scan} | {None, 'n', 'm', 'strasse'}
            for k in sorted(keys, key=repr):
                got = snapshot.get(k, set())
                kf = (k.casefold() or None) if isinstance(k, str) else None
                want = {e for e in scan if fold_name(e) == k} if (k is None or (k and k == k.casefold())) else None
                stale = [e for e in got if not any(e is s for s in scan) or fold_name(e) != kf]
                if stale:
                    acc.fail('by_target_stale', case,
                             f'history={history}\n vmf{vi}.by_target[{k!r}] returns {sorted(map(lab, got))} but '
                             f'{sorted(map(lab, stale))} are not in the map under that name', op=history[-1][0])
                    break
                if want is not None and got != want:
                    acc.fail('by_target_missing', case,
                             f'history={history}\n vmf{vi}.by_target[{k!r}] = {sorted(map(lab, got))}, scan says {sorted(map(lab, want))}',
                             op=history[-1][0])
                    break
            # --- search()
            for q in QUERIES:
                try:
                    got_l = list(vmf.search(q))
                except Exception as exc:  # noqa: BLE001
                    acc.fail('search_raised', case, f'history={history}\n vmf{vi}.search({q!r}) raised {type(exc).__name__}: {exc}')
                    break
                qf = q.casefold()
                if not q:
                    want_s = set()
                elif q.endswith('*'):
                    want_s = {e for e in scan if fold_name(e) is not None and fold_name(e).startswith(qf[:-1])}
                else:
                    want_s = {e for e in scan if fold_name(e) == qf or fold_class(e) == qf}
                if set(got_l) != want_s:
                    acc.fail('search_wrong', case,
                             f'history={history}\n vmf{vi}.search({q!r}) = {sorted(map(lab, got_l))}, scan says {sorted(map(lab, want_s))}',
                             op=history[-1][0])
                    break
            # --- worldspawn
            if vmf.spawn['classname'].casefold() != 'worldspawn':
                acc.fail('spawn_class_changed', case, f"history={history}\n vmf{vi}.spawn['classname'] = {vmf.spawn['classname']!r}")
            if not any(e is vmf.spawn for e in vmf.by_class.get('worldspawn', ())):
                acc.fail('spawn_not_indexed', case, f"history={history}\n vmf{vi}.spawn is not in by_class['worldspawn']")
        if nontrivial:
            acc.nontrivial += 1
        acc.outcome(repr(self.canon(st)[1])[:200])


def run(ctx: core.Ctx) -> None:
    model = Model()
    depth = ctx.pick(3, 4)
    res = bfs.explore(model, ctx.acc, depth, max_states=ctx.pick(0, 0))
    # second, deeper search over a reduced alphabet (2 handles, no iteration operations)
    small = Model(maxh=2, rich=False)
    a2 = core.Acc()
    res2 = bfs.explore(small, a2, ctx.pick(4, 5))
    ctx.acc.merge(a2)
    gc.collect()
    ctx.coverage_extra.update({
        'states': res['states'] + res2['states'],
        'transitions': res['transitions'] + res2['transitions'],
        'traces_validated_against_impl': res['transitions'] + res2['transitions'],
        'depth_completed': {'full_alphabet_3_handles': res['depth_completed'], 'reduced_alphabet_2_handles': res2['depth_completed']},
        'states_per_level': {'full': res['per_level'], 'reduced': res2['per_level']},
    })
    ctx.acc.sample({'history': [['create', 0, 'A', 'N'], ['set', 0, 'targetname', 'm'], ['remove', 0]]})
    ctx.rule = (f'BFS over operation histories on two real VMF objects and <= {MAXH} entity handles: create_ent / Entity() / '
                f'add_ent / add_ents / remove_ent / Entity.remove / set classname|targetname (mixed-case keys and values, '
                f'empty) / update / del / pop / clear / make_unique / copy into either map / worldspawn re-class / '
                f're-parse of the exported map / the map written as a BSP entity lump and read back through BSP.ents / iterate an index while removing, renaming or re-classing; all histories '
                f'to depth {depth} (full alphabet) and depth {ctx.pick(4, 5)} (2 handles, no iteration ops), deduplicated on the '
                f'canonical state. Every transition is an execution of the real code (no separate model), so '
                f'traces_validated_against_impl = transitions. Non-trivial = a map contains at least one entity.')


def replay(case: dict) -> list:
    model = Model()
    acc = core.Acc()
    hist = case['history']
    # evaluate the invariant after every prefix: the first failing prefix is what matters
    for i in range(len(hist) + 1):
        st = model.build(hist[:i])
        model.check(st, hist[:i], acc)
        model.dispose(st)
        if acc.fail_counts:
            break
    return acc.all_failures()
