"""C12 — atomic file replacement: old or new contents, never a mixture.

Shape (F): crash-point, fault and interleaving exploration of the real AtomicWriter / BSP.save over a real
tmpfs directory, with every file-system operation intercepted (mcv/faultfs.py):
  (i)   crash points: a directory snapshot after every operation of every scenario (a process kill leaves exactly
        what is on disk at that boundary - user-space buffers are lost);
  (ii)  every single injected OSError at every operation (several errno values);
  (iii) an exception raised by the caller's body at every write;
  (iv)  every interleaving of two writers' operation sequences (baton scheduler), with an ownership monitor.
"""
from __future__ import annotations

import errno
import hashlib
import os
import shutil

import srctools
from srctools import AtomicWriter

from mcv import core, faultfs, sched

PROPERTY = 'C12'
LEVEL = 'fault_enumeration'

OLD = b'OLD-CONTENTS-' * 7
CHUNKS = {'e': b'', 's': b'0123456789', 'f': bytes(range(256)) * 32 + b'x', 'L': bytes(range(256)) * 391}   # 0, 10, 8193, 100096 bytes
BSP_SAMPLE = os.path.join(core.REPO, 'tests', 'test_vec', 'rot_main.bsp')


def sha(b: bytes) -> str:
    return hashlib.sha1(b).hexdigest()


class BodyError(Exception):
    pass


# ------------------------------------------------------------------------------------------------
# scenarios: each is (name, setup(dir) -> dest path, run(dest) performing the write, expected NEW bytes or None)

def scenario(spec: dict):
    """spec keys: kind bytes|text|bsp|twice ; chunks ; old (bool) ; subdir (bool) ; stale (bool) ; raise_at (int|None);
    raise_kind"""
    kind = spec['kind']

    def setup(root: str) -> str:
        d = os.path.join(root, 'sub', 'deeper') if spec.get('subdir') else root
        if not spec.get('subdir'):
            os.makedirs(d, exist_ok=True)
        dest = os.path.join(d, 'dest.bin')
        if spec.get('old'):
            os.makedirs(d, exist_ok=True)
            with open(dest, 'wb') as f:
                f.write(OLD)
            if spec.get('readonly'):
                os.chmod(dest, 0o444)        # a read-only destination is still replaced by a rename (directory permission)
        if spec.get('stale'):
            os.makedirs(d, exist_ok=True)
            with open(os.path.join(d, 'tmp_1'), 'wb') as f:
                f.write(b'STALE-TEMP-OF-A-CRASHED-WRITER')
        return dest

    def expected() -> bytes:
        if kind == 'text':
            return ''.join('héllo-✓-' + c * 3 + '\n' for c in spec['chunks']).encode(spec.get('encoding', 'utf8') if spec.get('encoding') == 'utf-16' else 'utf8')
        if kind == 'bsp':
            return b''   # computed from the fault-free run
        return b''.join(CHUNKS[c] for c in spec['chunks'])

    def run(dest: str) -> None:
        raise_at = spec.get('raise_at')

        def maybe_raise(j: int) -> None:
            if raise_at is not None and j == raise_at:
                if spec.get('raise_kind') == 'KeyboardInterrupt':
                    raise KeyboardInterrupt
                if spec.get('raise_kind') == 'GeneratorExit':
                    raise GeneratorExit          # what the body sees when the generator holding the writer is closed early
                if spec.get('raise_kind') == 'SystemExit':
                    raise SystemExit(3)
                raise BodyError(f'body failed at write {j}')
        if kind == 'bytes':
            with AtomicWriter(dest, is_bytes=True) as f:
                for j, c in enumerate(spec['chunks']):
                    maybe_raise(j)
                    f.write(CHUNKS[c])
                maybe_raise(len(spec['chunks']))
        elif kind == 'text':
            with AtomicWriter(dest, is_bytes=False, encoding=spec.get('encoding', 'utf8')) as f:
                for j, c in enumerate(spec['chunks']):
                    maybe_raise(j)
                    f.write('héllo-✓-' + c * 3 + '\n')
                maybe_raise(len(spec['chunks']))
        elif kind == 'twice':
            w = AtomicWriter(dest, is_bytes=True)
            with w as f:
                f.write(b'FIRST-GENERATION')
            with w as f:
                for c in spec['chunks']:
                    f.write(CHUNKS[c])
        elif kind == 'generator':
            def gen():
                with AtomicWriter(dest, is_bytes=True) as f:
                    for c in spec['chunks']:
                        f.write(CHUNKS[c])
                        yield c
            g = gen()
            next(g)
            g.close()            # the consumer stops early: the write was abandoned half-way
        elif kind == 'abandon':
            # a cycle that is entered, written to and never exited (the caller lost interest), then the same writer
            # object performs a complete cycle: the destination must hold exactly the second cycle's data
            w = AtomicWriter(dest, is_bytes=True)
            f0 = w.__enter__()
            f0.write(b'ABANDONED-GENERATION-' * 3)
            if spec.get('flush_abandoned'):
                f0.flush()
            with w as f:
                for c in spec['chunks']:
                    f.write(CHUNKS[c])
            try:
                f0.close()
            except (OSError, ValueError):
                pass
        elif kind == 'bsp':
            from srctools.bsp import BSP
            bsp = BSP(BSP_SAMPLE)
            bsp.save(dest)
        else:
            raise AssertionError(kind)
    return setup, run, expected


def fresh_dir(base: str, tag: str) -> str:
    d = os.path.join(base, tag)
    shutil.rmtree(d, ignore_errors=True)
    os.makedirs(d)
    return d


def run_once(base: str, spec: dict, fault_at=None, fault_name=None, snapshots=False):
    """Execute one scenario under the interposer.  Returns (ctl, raised exception or None, dest, root, pre-state)."""
    root = fresh_dir(base, 'w')
    setup, run, _ = scenario(spec)
    dest = setup(root)
    pre = faultfs.dir_snapshot(root)
    ctl = faultfs.Controller(root)
    if snapshots:
        ctl.snapshots = []
    if fault_at is not None:
        ctl.fault_at = fault_at
        ctl.fault_exc = ALL_FAULTS[fault_name]
    raised = None
    with faultfs.Interposer(ctl):
        try:
            run(dest)
        except BaseException as exc:  # noqa: BLE001 - judged below
            raised = exc
    return ctl, raised, dest, root, pre


ALL_FAULTS = dict(faultfs.FAULTS)
ALL_FAULTS['EEXIST'] = faultfs.make_oserror(errno.EEXIST)
ALL_FAULTS['ENOENT'] = faultfs.make_oserror(errno.ENOENT)


def temps(snapshot: dict) -> list:
    return sorted(p for p in snapshot if os.path.basename(p).startswith('tmp_'))


def explore_scenario(base: str, spec: dict) -> core.Acc:
    acc = core.Acc()
    case0 = {'spec': spec}
    rel_dest = os.path.join('sub', 'deeper', 'dest.bin') if spec.get('subdir') else 'dest.bin'
    old_hash = sha(OLD) if spec.get('old') else None
    # ---- profile run (fault free), with a snapshot after every operation = crash points
    ctl, raised, dest, root, pre = run_once(base, spec, snapshots=True)
    acc.evaluations += 1
    nops = len(ctl.log)
    acc.count('operations_profiled', nops)
    # (a text writer whose encoding does not exist, or cannot encode what the body writes, fails like a raising body)
    expect_fail = spec.get('raise_at') is not None or spec['kind'] == 'generator' or spec.get('encoding') in ('no-such-codec', 'ascii')
    _, _, expected = scenario(spec)
    if spec['kind'] == 'bsp' and raised is None:
        with open(dest, 'rb') as f:
            new_bytes = f.read()
        from srctools.bsp import BSP
        try:
            BSP(dest)
        except Exception as exc:  # noqa: BLE001
            acc.fail('bsp_output_unreadable', case0, f'BSP.save output cannot be read back: {exc}')
    else:
        new_bytes = expected()
    new_hash = sha(new_bytes)
    final = faultfs.dir_snapshot(root)
    stale = {k: v for k, v in pre.items() if os.path.basename(k).startswith('tmp_')}
    if expect_fail:
        if raised is None and spec['kind'] == 'generator':
            pass        # closing a generator is a normal return for the consumer
        elif raised is None:
            acc.fail('body_exception_swallowed', case0, f'{spec}: the body raised but the with-statement returned normally')
        elif not isinstance(raised, (BodyError, KeyboardInterrupt, GeneratorExit, SystemExit) + ((LookupError, UnicodeError) if spec.get('encoding') else ())):
            acc.fail('body_exception_replaced', case0, f'{spec}: body exception replaced by {type(raised).__name__}: {raised}')
        if final.get(rel_dest) != old_hash:
            acc.fail('abandoned_write_changed_dest', case0, f'{spec}: destination changed although the body raised: {final}')
        left = [t for t in temps(final) if t not in stale]
        if left:
            acc.fail('temp_left_after_body_exception', case0, f'{spec}: temporary files left behind: {left}; ops={ctl.log}')
    else:
        if raised is not None:
            acc.fail('clean_write_raised', case0, f'{spec}: fault-free write raised {type(raised).__name__}: {raised}')
            return acc
        if final.get(rel_dest) != new_hash:
            acc.fail('wrong_final_contents', case0, f'{spec}: destination does not hold the new contents after a clean exit')
        left = [t for t in temps(final) if t not in stale]
        if left and spec['kind'] != 'abandon':   # the abandoned cycle's temp file is not a handled failure
            acc.fail('temp_left_after_success', case0, f'{spec}: temporary files left behind: {left}')
    for k, v in stale.items():
        if final.get(k) != v:
            acc.fail('stale_temp_clobbered', case0, f"{spec}: another writer's leftover {k} was modified or removed")
    # crash points
    allowed = {old_hash, new_hash} if not expect_fail else {old_hash}
    if spec['kind'] == 'twice':
        allowed = {old_hash, sha(b'FIRST-GENERATION'), new_hash}
    for (idx, op, detail, snap) in ctl.snapshots or []:
        acc.evaluations += 1
        acc.nontrivial += 1
        got = snap.get(rel_dest)
        acc.outcome(('crash', op, 'old' if got == old_hash else 'new' if got == new_hash else 'other'))
        if got not in allowed:
            acc.fail('crash_point_mixture', dict(case0, crash_after_op=idx),
                     f'{spec}: killed after operation #{idx} ({op} {detail}) the destination holds neither the old nor the new '
                     f'contents (sha {got}); ops so far: {ctl.log[:idx]}', op=op)
            break
    # ---- single fault at every operation
    if spec['kind'] == 'bsp':
        fault_names = ['ENOSPC']
    else:
        fault_names = ['ENOSPC', 'EACCES', 'EIO']
    for i in range(nops):
        who, op, detail = ctl.log[i]
        names = list(fault_names)
        if op == 'open':
            names.append('EEXIST')
        if op == 'unlink':
            names.append('ENOENT')
        for fname in names:
            acc.evaluations += 1
            acc.nontrivial += 1
            c2, raised2, dest2, root2, pre2 = run_once(base, spec, fault_at=i, fault_name=fname)
            fin = faultfs.dir_snapshot(root2)
            case = dict(case0, fault_at=i, fault=fname)
            if not c2.fault_fired:
                acc.fail('harness_fault_not_fired', case, f'{spec}: operation #{i} not reached on replay (nondeterministic op sequence)')
                continue
            got = fin.get(rel_dest)
            left = [t for t in temps(fin) if t not in stale]
            acc.outcome(('fault', op, fname, 'raised' if raised2 is not None else 'ok', 'old' if got == old_hash else 'new' if got == new_hash else 'other'))
            sig = dict(op=op, fault=fname)
            # absorbing these is the designed behaviour: EEXIST -> next temp name; ENOENT on cleanup; and pathlib's
            # mkdir(exist_ok=True) ignores any OSError when the directory is already there
            tolerated = (op == 'open' and fname == 'EEXIST') or (op == 'unlink' and fname == 'ENOENT') or op == 'mkdir'
            if raised2 is None or (expect_fail and isinstance(raised2, (BodyError, KeyboardInterrupt, GeneratorExit, SystemExit, LookupError, UnicodeError))):
                # the writer absorbed the fault (e.g. EEXIST -> next temp name): then the normal outcome is required
                want = old_hash if expect_fail else new_hash
                if spec['kind'] == 'twice' and got == sha(b'FIRST-GENERATION'):
                    pass
                elif got != want:
                    acc.fail('fault_absorbed_wrong_contents', case, f'{spec}: {fname} at #{i} ({op} {detail}) was absorbed but the '
                             f'destination is not the {"old" if expect_fail else "new"} contents', **sig)
                if left and not (op == 'unlink') and spec['kind'] != 'abandon':
                    acc.fail('temp_left_after_fault', case, f'{spec}: {fname} at #{i} ({op} {detail}): temp files left: {left}; ops={c2.log}', **sig)
                if not tolerated and raised2 is None and not expect_fail:
                    acc.fail('fault_swallowed', case, f'{spec}: {fname} at #{i} ({op} {detail}) was silently swallowed', **sig)
                continue
            # handled failure: the with-statement raised
            prev_ok = {old_hash}
            if spec['kind'] == 'twice':
                prev_ok = {old_hash, sha(b'FIRST-GENERATION')}
            if got not in prev_ok:
                acc.fail('failed_write_changed_dest', case, f'{spec}: {fname} at #{i} ({op} {detail}) raised {type(raised2).__name__} '
                         f'but the destination no longer holds the previous contents (sha {got})', **sig)
            if left and op != 'unlink' and spec['kind'] != 'abandon':
                acc.fail('temp_left_after_fault', case, f'{spec}: {fname} at #{i} ({op} {detail}) raised {type(raised2).__name__}; '
                         f'temporary files left behind: {left}; ops={c2.log}', **sig)
            for k, v in stale.items():
                if fin.get(k) != v:
                    acc.fail('stale_temp_clobbered', case, f"{spec}: {fname} at #{i}: another writer's leftover {k} was modified or removed", **sig)
    acc.sample({'spec': spec, 'ops': [f'{o} {d}' for _, o, d in ctl.log[:12]]}, 2)
    return acc


# ------------------------------------------------------------------------------------------------
# two writers, all interleavings

def two_writer_world(base: str, cfg: dict):
    root = fresh_dir(base, 'w2')
    dests = [os.path.join(root, 'a.bin'), os.path.join(root, 'b.bin')]
    olds = [b'OLD-A' * 5, b'OLD-B' * 5]
    news = [b'NEW-A' * 400, b'NEW-B' * 400]
    if cfg.get('same_dest'):
        dests[1] = dests[0]
    for d, o in zip(dests, olds):
        with open(d, 'wb') as f:
            f.write(o)
    if cfg.get('stale'):
        with open(os.path.join(root, 'tmp_1'), 'wb') as f:
            f.write(b'STALE')
    bsp_src = None
    if cfg.get('bsp') is not None:
        # one of the two writers is BSP.save() of a small map: its expected output is taken from a save outside the explorer
        from srctools.bsp import BSP
        from checks import bspgen as _G
        bsp_src = os.path.join(base, 'tiny_src.bsp')
        if not os.path.exists(bsp_src):
            with open(bsp_src, 'wb') as f:
                f.write(_G.empty_file('v20'))
            BSP(bsp_src).save(os.path.join(base, 'tiny_ref.bsp'))
        with open(os.path.join(base, 'tiny_ref.bsp'), 'rb') as f:
            news[cfg['bsp']] = f.read()
    ctl = faultfs.Controller(root)
    inter = faultfs.Interposer(ctl)
    inter.__enter__()

    def body(i: int):
        def fn_bsp() -> None:
            from srctools.bsp import BSP
            b = BSP(bsp_src)
            try:
                b.save(dests[i])
            finally:
                del b
        if cfg.get('bsp') == i:
            return fn_bsp

        def fn() -> None:
            writer = AtomicWriter(dests[i], is_bytes=True)
            f = None
            try:
                if cfg.get('reuse') == i:
                    # the same writer object used for two complete cycles while the other writer is active
                    with writer as f:
                        f.write(b'FIRST-CYCLE-OF-' + str(i).encode())
                with writer as f:
                    for j in range(cfg['writes']):
                        f.write(news[i][j * 1000:(j + 1) * 1000])
                    if cfg.get('fail') == i:
                        raise BodyError('writer fails')
            finally:
                # the moment the finished writer object is dropped is part of the schedule, not of the garbage collector:
                # release it here, inside this thread's turn (a traceback would otherwise keep it alive into the next execution)
                del f
                del writer
        return fn

    def set_actor(name: str) -> None:
        ctl.actor.name = name

    def hook_setter(fn) -> None:
        ctl.on_point = fn

    world = {'ctl': ctl, 'inter': inter, 'root': root, 'dests': dests, 'olds': olds, 'news': news, 'cfg': cfg}
    return world, [body(0), body(1)], ['w0', 'w1'], set_actor, hook_setter, lambda w: w['inter'].__exit__(None, None, None)


def explore_two_writers(base: str, cfg: dict, max_preempt, only_schedule=None) -> core.Acc:
    acc = core.Acc()

    def judge(world, run) -> None:
        acc.evaluations += 1
        acc.nontrivial += 1
        ctl = world['ctl']
        case = {'two_writers': cfg, 'schedule': list(run.choices)}
        fin = faultfs.dir_snapshot(world['root'])
        acc.outcome(tuple(sorted(fin)))
        for msg in ctl.clobbers:
            acc.fail('temp_clobbered', case, f'{cfg} schedule={run.choices}: {msg}\n ops={ctl.log}')
            break
        for i in range(2):
            failed = cfg.get('fail') == i
            err = run.errors[i]
            if failed and not isinstance(err, BodyError):
                acc.fail('writer_error_lost', case, f'{cfg} schedule={run.choices}: writer {i} should have raised BodyError, got {err!r}')
            if not failed and err is not None:
                acc.fail('writer_raised', case, f'{cfg} schedule={run.choices}: writer {i} raised {type(err).__name__}: {err}')
        wrote = tuple(world['news'][i] if cfg.get('bsp') == i else world['news'][i][:cfg['writes'] * 1000] for i in range(2))
        if cfg.get('same_dest'):
            got = fin.get('a.bin')
            ok = {sha(wrote[i]) for i in range(2) if cfg.get('fail') != i} or {sha(world['olds'][0])}
            if got not in ok:
                acc.fail('shared_dest_mixture', case, f'{cfg} schedule={run.choices}: shared destination holds neither writer\'s complete data')
        else:
            for i, name in enumerate(('a.bin', 'b.bin')):
                want = sha(world['olds'][i]) if cfg.get('fail') == i else sha(wrote[i])
                if fin.get(name) != want:
                    acc.fail('wrong_dest_after_interleaving', case, f'{cfg} schedule={run.choices}: {name} does not hold its own writer\'s '
                             f'{"old" if cfg.get("fail") == i else "new"} contents\n ops={ctl.log}')
        left = [t for t in temps(fin) if not (cfg.get('stale') and t == 'tmp_1')]
        if left:
            acc.fail('temp_left_after_interleaving', case, f'{cfg} schedule={run.choices}: temp files left: {left}\n ops={ctl.log}')
        if cfg.get('stale') and fin.get('tmp_1') != sha(b'STALE'):
            acc.fail('stale_temp_clobbered', case, f'{cfg} schedule={run.choices}: the stale tmp_1 of a crashed writer was modified or removed')

    if only_schedule is not None:
        # replay of one recorded schedule (the choices are forced; a divergence is a hard error inside execute())
        world, bodies, names, set_actor, hook_setter, cleanup = two_writer_world(base, cfg)
        run = sched.Run(bodies, names)
        hook_setter(run.at_point)
        try:
            run.execute(list(only_schedule), set_actor)
            hook_setter(None)
            judge(world, run)
        finally:
            hook_setter(None)
            for exc in run.errors:
                if exc is not None:
                    exc.__traceback__ = None
            run.bodies = []
            cleanup(world)
        return acc
    # all interleavings when no bound is given - up to a ceiling three times the largest space of the current writer (a writer that
    # performs many more operations would otherwise never finish); past it the completed statement is the 2-preemption one
    stats = sched.explore(lambda: two_writer_world(base, cfg), judge, max_preemptions=max_preempt, limit=0 if max_preempt is not None else 20000)
    if stats.get('capped'):
        acc.caps.append(f'two writers {cfg}: more than 20000 interleavings; every schedule with <= 2 preemptions explored instead')
        st2 = sched.explore(lambda: two_writer_world(base, cfg), judge, max_preemptions=2)
        stats['schedules'] += st2['schedules']
    acc.count('schedules', stats['schedules'])
    acc.count('max_points_per_schedule', stats['max_points'])
    acc.sample({'two_writers': cfg, 'schedules': stats['schedules']}, 1)
    return acc


# ------------------------------------------------------------------------------------------------
# conformance: the same scenarios in a child process under strace, killed (SIGKILL) on entry to every syscall

import json as _json
import re as _re
import subprocess as _subprocess

TRACE_SET = 'openat,write,close,rename,renameat,renameat2,unlink,unlinkat,mkdir,mkdirat'
_CALL = _re.compile(r'^\d+\s+(\w+)\((.*)$')


def _strace(base: str, spec: dict, dest: str, inject: str | None, tag: str):
    log = os.path.join(base, f'strace-{tag}.log')
    cmd = ['strace', '-f', '-o', log, '-e', 'trace=' + TRACE_SET]
    if inject:
        cmd += ['-e', inject]
    env = dict(os.environ, PYTHONPATH=f'{core.VERIF}:{core.REPO}/src:{core.VERIF}/shims', PYTHONHASHSEED='0', PYTHONDONTWRITEBYTECODE='1')
    cmd += ['/venv/bin/python', '-m', 'checks.c12_child', _json.dumps(spec), dest]
    r = _subprocess.run(cmd, env=env, cwd=core.VERIF, capture_output=True, text=True, timeout=120)
    with open(log, errors='replace') as f:
        lines = f.read().split('\n')
    return r, lines


def explore_strace(base: str, spec: dict) -> core.Acc:
    """(1) the real syscall trace of the fault-free run must agree with the in-process operation log on the order of
    directory-affecting operations and on the bytes written; (2) a real SIGKILL on entry to every post-start syscall
    leaves the destination old or new."""
    acc = core.Acc()
    case = {'spec': spec, 'mode': 'strace'}
    rel_dest = os.path.join('sub', 'deeper', 'dest.bin') if spec.get('subdir') else 'dest.bin'
    # in-process model log
    ctl, raised, dest0, root0, _ = run_once(base, spec)
    model = [(op, d) for _, op, d in ctl.log]
    new_hash = None
    if raised is None:
        with open(dest0, 'rb') as f:
            new_hash = sha(f.read())
    old_hash = sha(OLD) if spec.get('old') else None
    # profile run under strace
    root = fresh_dir(base, 'st')
    setup, _, _ = scenario(spec)
    dest = setup(root)
    r, lines = _strace(base, spec, dest, None, 'profile')
    acc.evaluations += 1
    try:
        mark = next(i for i, ln in enumerate(lines) if 'C12MARK' in ln)
        end = next(i for i, ln in enumerate(lines) if 'C12DONE' in ln)
    except StopIteration:
        acc.fail('harness_strace_failed', case, f'{spec}: strace profile run produced no markers: rc={r.returncode} {r.stderr[-300:]}')
        return acc
    pre_counts: dict = {}
    for ln in lines[:mark + 1]:
        m = _CALL.match(ln)
        if m:
            pre_counts[m.group(1)] = pre_counts.get(m.group(1), 0) + 1
    post = []
    for ln in lines[mark + 1:end]:
        m = _CALL.match(ln)
        if m and 'C12RAISED' not in ln:
            post.append((m.group(1), m.group(2)))
    # ---- conformance of the interposer's model with the kernel-level trace
    real_dir_ops = []
    real_bytes = 0
    tmp_fd = None
    for name, args in post:
        if name in ('openat',) and 'tmp_' in args and 'O_EXCL' in args:
            real_dir_ops.append('open')
            mfd = _re.search(r'=\s*(\d+)\s*$', args)
            tmp_fd = mfd.group(1) if mfd else None
        elif name == 'write' and tmp_fd is not None and args.startswith(tmp_fd + ','):
            mres = _re.search(r'=\s*(\d+)\s*$', args)
            real_bytes += int(mres.group(1)) if mres else 0
        elif name == 'close' and tmp_fd is not None and args.startswith(tmp_fd + ')'):
            real_dir_ops.append('close')
            tmp_fd = None
        elif name.startswith('rename') and 'tmp_' in args:
            real_dir_ops.append('replace')
        elif name.startswith('unlink') and 'tmp_' in args:
            real_dir_ops.append('unlink')
    model_dir_ops = [op for op, d in model if op in ('open', 'close', 'replace', 'unlink')]
    model_bytes = sum(int(d.rsplit(':', 1)[1]) for op, d in model if op == 'write')
    acc.outcome(('trace', tuple(real_dir_ops)))
    if real_dir_ops != model_dir_ops:
        acc.fail('model_trace_mismatch', case, f'{spec}: kernel-level directory operations {real_dir_ops} differ from the interposer log {model_dir_ops}')
    if spec['kind'] in ('bytes', 'twice', 'bsp', 'abandon') and raised is None and real_bytes != model_bytes:
        acc.fail('model_trace_mismatch', case, f'{spec}: {real_bytes} bytes written at syscall level, interposer saw {model_bytes}')
    # ---- real SIGKILL at every syscall after the start marker
    seen: dict = {}
    points = []
    for name, args in post:
        seen[name] = seen.get(name, 0) + 1
        points.append((name, pre_counts.get(name, 0) + seen[name], args[:60]))
    allowed = {old_hash, new_hash} if spec.get('raise_at') is None else {old_hash}
    if spec['kind'] == 'twice':
        allowed = {old_hash, sha(b'FIRST-GENERATION'), new_hash}
    for j, (name, when, args) in enumerate(points):
        acc.evaluations += 1
        acc.nontrivial += 1
        root = fresh_dir(base, 'st')
        dest = setup(root)
        r, lines2 = _strace(base, spec, dest, f'inject={name}:signal=KILL:when={when}', 'kill')
        killed = any('killed by SIGKILL' in ln for ln in lines2)
        if not killed:
            acc.count('strace_kill_not_delivered')
            continue
        snap = faultfs.dir_snapshot(root)
        got = snap.get(rel_dest)
        acc.outcome(('kill', name, 'old' if got == old_hash else 'new' if got == new_hash else 'other'))
        if got not in allowed:
            acc.fail('crash_point_mixture', dict(case, kill_at=[name, when]),
                     f'{spec}: real SIGKILL on entry to {name} #{when} ({args}) left the destination neither old nor new (sha {got}, files {sorted(snap)})',
                     op=name, mode='strace')
            break
    acc.count('strace_kill_points', len(points))
    acc.sample({'spec': spec, 'mode': 'strace', 'kill_points': len(points), 'dir_ops': real_dir_ops}, 1)
    return acc


# ------------------------------------------------------------------------------------------------

def shard(spec) -> core.Acc:
    base = os.path.join('/dev/shm', f'verif-C12-{os.getpid()}')
    os.makedirs(base, exist_ok=True)
    try:
        if spec[0] == 'scenario':
            return explore_scenario(base, spec[1])
        if spec[0] == 'strace':
            return explore_strace(base, spec[1])
        return explore_two_writers(base, spec[1], spec[2])
    finally:
        shutil.rmtree(base, ignore_errors=True)


def scenario_list(quick: bool) -> list:
    specs = []
    seqs = ['', 's', 'f', 'L', 'ss', 'sf', 'fs', 'es', 'sL', 'sss', 'sfs'] if quick else \
        [''.join(t) for n in range(0, 4) for t in __import__('itertools').product('esfL', repeat=n)]
    for chunks in seqs:
        for old in (True, False):
            specs.append({'kind': 'bytes', 'chunks': chunks, 'old': old})
    for chunks in ('', 's', 'ss', 'sfs'):
        specs.append({'kind': 'text', 'chunks': chunks, 'old': True})
    for enc in ('no-such-codec', 'ascii', 'utf-16'):
        specs.append({'kind': 'text', 'chunks': 's', 'old': True, 'encoding': enc})
    specs.append({'kind': 'text', 'chunks': 'sf', 'old': False, 'encoding': 'no-such-codec'})
    # body raises at every write index
    for chunks in ('', 's', 'sf', 'sfs', 'fL'):
        for j in range(len(chunks) + 1):
            for rk in ('ValueError', 'KeyboardInterrupt'):
                specs.append({'kind': 'bytes', 'chunks': chunks, 'old': True, 'raise_at': j, 'raise_kind': rk})
    for rk in ('GeneratorExit', 'SystemExit'):
        for j in (0, 1, 2):
            specs.append({'kind': 'bytes', 'chunks': 'sf', 'old': True, 'raise_at': j, 'raise_kind': rk})
    specs.append({'kind': 'generator', 'chunks': 'sf', 'old': True})
    specs.append({'kind': 'bytes', 'chunks': 'sf', 'old': False, 'raise_at': 1, 'raise_kind': 'ValueError'})
    specs.append({'kind': 'bytes', 'chunks': 'sf', 'old': False, 'subdir': True})
    specs.append({'kind': 'bytes', 'chunks': 'sf', 'old': True, 'stale': True})
    specs.append({'kind': 'bytes', 'chunks': 's', 'old': True, 'stale': True, 'raise_at': 1, 'raise_kind': 'ValueError'})
    specs.append({'kind': 'bytes', 'chunks': 'sf', 'old': True, 'readonly': True})
    specs.append({'kind': 'bytes', 'chunks': 's', 'old': True, 'readonly': True, 'raise_at': 1, 'raise_kind': 'ValueError'})
    specs.append({'kind': 'twice', 'chunks': 'sf', 'old': True})
    specs.append({'kind': 'abandon', 'chunks': 'sf', 'old': True})
    specs.append({'kind': 'abandon', 'chunks': 's', 'old': False, 'flush_abandoned': True})
    specs.append({'kind': 'bsp', 'old': True})
    specs.append({'kind': 'bsp', 'old': False})
    return specs


def run(ctx: core.Ctx) -> None:
    shards = [('scenario', s) for s in scenario_list(ctx.quick)]
    w = ctx.pick(2, 3)
    for cfg in ({'writes': w}, {'writes': w, 'fail': 0}, {'writes': w, 'fail': 1}, {'writes': 1, 'stale': True},
                {'writes': 1, 'stale': True, 'fail': 1}, {'writes': 1, 'same_dest': True}, {'writes': 1, 'reuse': 0},
                {'writes': 1, 'reuse': 1, 'fail': 0}):
        shards.append(('two', cfg, None))
    # a plain writer next to BSP.save() of a small map in the same directory (many more operations: preemption-bounded)
    shards.append(('two', {'writes': 1, 'bsp': 1}, ctx.pick(1, 2)))
    shards.append(('two', {'writes': 1, 'bsp': 0}, ctx.pick(1, 2)))
    # conformance of the in-process operation model with real syscalls (strace), and real SIGKILLs
    st_specs = scenario_list(ctx.quick)
    if ctx.quick:
        st_specs = [s for s in st_specs if s.get('chunks') in ('sf', 'sfs', 'L') and s['kind'] != 'bsp'][:8] + \
                   [s for s in st_specs if s['kind'] in ('twice', 'text', 'abandon')][:3] + [s for s in st_specs if s.get('readonly')][:1]
    import shutil as _sh
    if _sh.which('strace'):
        shards += [('strace', s) for s in st_specs]
        ctx.coverage_extra['strace_scenarios'] = len(st_specs)
    else:
        ctx.acc.caps.append('strace not available: kernel-level conformance pass skipped')
    k = ctx.seed % len(shards)
    core.par_map(shard, shards[k:] + shards[:k], ctx.acc)
    ctx.coverage_extra['scenarios'] = len(shards)
    ctx.coverage_extra['traces_validated_against_impl'] = ctx.acc.counters.get('strace_kill_points', 0)
    ctx.coverage_extra['crash_model'] = 'process kill: directory contents at every operation boundary; power loss without fsync is outside the property'
    ctx.assumptions.append('file-system operations are intercepted at io.open / os.mkdir / os.replace / os.unlink (and os.rename / os.remove / os.open / os.fsync, unused by the current writer) and on the returned file '
                           'object (write, seek, flush, close); an operation the writer performed through another route would be unseen')
    ctx.rule = (f'{len(shards)} scenarios: bytes/text writers with bodies of 0-3 chunks from (0, 10, 8193, 100096 bytes), destination '
                f'previously present/absent, missing parent directories, a stale tmp_1, a read-only destination file, a writer object used twice, a cycle entered and abandoned before the same writer completes another, the body raising '
                f'ValueError/KeyboardInterrupt at every write index, and BSP.save of the sample map; for each: a directory snapshot '
                f'after EVERY intercepted operation (crash points), and ONE injected OSError (ENOSPC, EACCES, EIO; EEXIST at open; ENOENT '
                f'at unlink) at EVERY operation; plus every interleaving of two writers (both succeed / either fails / stale temp / same '
                f'destination) at operation granularity under a baton scheduler. Non-trivial = every crash point, fault run and schedule.')


def replay(case: dict) -> list:
    base = os.path.join('/dev/shm', f'verif-C12-replay-{os.getpid()}')
    os.makedirs(base, exist_ok=True)
    try:
        if case.get('mode') == 'strace':
            acc = explore_strace(base, case['spec'])
        elif 'two_writers' in case:
            acc = explore_two_writers(base, case['two_writers'], None, only_schedule=case.get('schedule'))
        else:
            acc = explore_scenario(base, case['spec'])
        return acc.all_failures()
    finally:
        shutil.rmtree(base, ignore_errors=True)
