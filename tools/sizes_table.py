#!/usr/bin/env python3
"""Print the quick-tier size table of DESIGN.md section 8 from evidence/*.json (as written by the last run of each check)."""
import glob
import json
import os

VERIF = os.path.dirname(os.path.dirname(os.path.abspath(__file__)))


def main() -> None:
    print('| id | tier | evaluations | of which non-trivial | states / transitions | distinct outcomes | wall (s) | caps hit |')
    print('|---|---|---|---|---|---|---|---|')
    for p in sorted(glob.glob(os.path.join(VERIF, 'evidence', 'C*.json'))):
        e = json.load(open(p))
        c = e.get('coverage', {})
        st = c.get('states')
        tr = c.get('transitions')
        print(f"| {e.get('property_id', os.path.basename(p)[:3])} | {e.get('tier', '?')} | {c.get('evaluations')} | {c.get('distinct_nontrivial')} | "
              f"{'-' if st is None else str(st) + ' / ' + str(tr)} | {c.get('distinct_outcomes')} | {e.get('wall_s', '?')} | "
              f"{len(c.get('caps_hit', []))} |")


if __name__ == '__main__':
    main()
