#!/usr/bin/env python3
"""Seeded property-breaking changes: validate a candidate, keep it under /verif/seeded/<id>/, run the checks against it.

  tools/seeded.py validate <candidate-dir> <PROP> <name>   # candidate-dir holds patch.diff, demo.py, notes.md
        In a scratch worktree of /repo HEAD (created under /dev/shm, removed afterwards): demo passes on the clean tree,
        fails with the patch, and the repository's own tests give the same result as on the clean tree.  On success the
        candidate is copied to /verif/seeded/<name>/ with meta.json.
  tools/seeded.py detect <name> [--tier quick|thorough] [--checks C01,C05]
        git -C /repo apply patch.diff ; ./check <PROP> ; git -C /repo checkout -- .   (always undone, even on error)
        Result is written to /verif/seeded/<name>/detect.json.
  tools/seeded.py detect-all [--tier quick]
"""
from __future__ import annotations

import json
import os
import re
import shutil
import subprocess
import sys
import time

VERIF = os.path.dirname(os.path.dirname(os.path.abspath(__file__)))
REPO = '/repo'
SEEDED = os.path.join(VERIF, 'seeded')
EXPECT = (2103, 12, 21)


def sh(cmd, **kw):
    return subprocess.run(cmd, shell=isinstance(cmd, str), capture_output=True, text=True, errors='replace', **kw)


def run_tests(tree: str) -> tuple:
    r = sh(f'cd {tree} && PYTHONPATH={tree}/src:{VERIF}/shims /venv/bin/python -m pytest -q -p no:cacheprovider -n 14 tests 2>&1 | tail -3')
    m = re.search(r'(\d+) failed, (\d+) passed, (\d+) xfailed', r.stdout)
    if not m:
        return (r.stdout[-300:],)
    return (int(m.group(2)), int(m.group(1)), int(m.group(3)))


def run_demo(tree: str, demo: str) -> int:
    env = dict(os.environ, PYTHONPATH=f'{tree}/src:{VERIF}/shims', SRC=f'{tree}/src', PYTHONHASHSEED='0')
    r = sh(['/venv/bin/python', demo], env=env, cwd='/tmp', timeout=600)
    return r.returncode


def validate(cand: str, prop: str, name: str) -> int:
    wt = f'/dev/shm/seedwt-{os.getpid()}'
    sh(f'git -C {REPO} worktree add --detach {wt} HEAD')
    meta = {'property': prop, 'name': name, 'validated_at_repo_head': sh(f'git -C {REPO} rev-parse --short HEAD').stdout.strip()}
    ok = False
    try:
        patch = os.path.join(cand, 'patch.diff')
        demo = os.path.join(cand, 'demo.py')
        meta['demo_on_clean_tree'] = run_demo(wt, demo)
        ap = sh(f'git -C {wt} apply {patch}')
        meta['patch_applies'] = ap.returncode == 0
        if ap.returncode != 0:
            meta['apply_error'] = ap.stderr[-400:]
        else:
            meta['files_touched'] = sh(f'git -C {wt} diff --stat').stdout.strip().split('\n')[:-1]
            meta['demo_with_change'] = run_demo(wt, demo)
            meta['repo_tests_with_change'] = run_tests(wt)
        ok = (meta['demo_on_clean_tree'] == 0 and meta.get('patch_applies') and meta.get('demo_with_change', 0) != 0
              and tuple(meta.get('repo_tests_with_change', ())) == EXPECT)
    finally:
        sh(f'git -C {REPO} worktree remove --force {wt}')
        shutil.rmtree(wt, ignore_errors=True)
    meta['valid'] = bool(ok)
    print(json.dumps(meta, indent=1))
    if ok:
        dest = os.path.join(SEEDED, name)
        os.makedirs(dest, exist_ok=True)
        for f in ('patch.diff', 'demo.py', 'notes.md'):
            if os.path.exists(os.path.join(cand, f)):
                shutil.copy(os.path.join(cand, f), os.path.join(dest, f))
        notes = ''
        if os.path.exists(os.path.join(cand, 'notes.md')):
            notes = open(os.path.join(cand, 'notes.md')).read()
        meta['needs_to_manifest'] = notes[:1500]
        meta['what_was_run'] = ['demo.py on clean worktree (exit 0 required)', 'git apply patch.diff', 'demo.py with change (non-zero required)',
                                'repository tests against the changed worktree (2103 passed / 12 failed / 21 xfailed required)']
        with open(os.path.join(dest, 'meta.json'), 'w') as f:
            json.dump(meta, f, indent=1)
    return 0 if ok else 1


def detect(name: str, tier: str, checks: list | None) -> dict:
    d = os.path.join(SEEDED, name)
    meta = json.load(open(os.path.join(d, 'meta.json')))
    props = checks or [meta['property']]
    if sh(f'git -C {REPO} status --porcelain -uno').stdout.strip():
        raise SystemExit('/repo has uncommitted changes to tracked files; refusing to apply a seeded change')
    res = {'tier': tier, 'repo_head': sh(f'git -C {REPO} rev-parse --short HEAD').stdout.strip(), 'checks': {}}
    ap = sh(f'git -C {REPO} apply {os.path.join(d, "patch.diff")}')
    if ap.returncode != 0:
        res['error'] = 'patch does not apply: ' + ap.stderr[-300:]
    else:
        try:
            for p in props:
                t0 = time.time()
                r = sh(f'cd {VERIF} && ./check {p} --tier {tier}')
                lines = [ln for ln in r.stdout.split('\n') if ln.startswith(('VIOLATION', 'NONDETERMINISM', 'HARNESS', 'KNOWN-FINDING'))]
                kinds = sorted(set(re.findall(r'kind=(\S+)', r.stdout)))
                res['checks'][p] = {'exit': r.returncode, 'violations': sum(ln.startswith('VIOLATION') for ln in lines), 'kinds': kinds[:12],
                                    'wall_s': round(time.time() - t0, 1), 'first': next((ln for ln in r.stdout.split('\n') if ln.startswith('  ') and 'kind=' not in ln), '')[:300]}
        finally:
            sh(f'git -C {REPO} checkout -- .')
    res['detected'] = any(c['exit'] == 1 and c['violations'] > 0 for c in res['checks'].values())
    with open(os.path.join(d, f'detect_{tier}.json'), 'w') as f:
        json.dump(res, f, indent=1)
    print(name, 'DETECTED' if res['detected'] else 'MISSED', json.dumps({k: (v['exit'], v['kinds'][:4]) for k, v in res['checks'].items()}), res.get('error', ''))
    return res


def main() -> int:
    a = sys.argv[1:]
    if a[0] == 'validate':
        return validate(a[1], a[2], a[3])
    tier = 'quick'
    checks = None
    if '--tier' in a:
        tier = a[a.index('--tier') + 1]
    if '--checks' in a:
        checks = a[a.index('--checks') + 1].split(',')
    if a[0] == 'detect':
        detect(a[1], tier, checks)
    elif a[0] == 'detect-all':
        # --fresh-hours H: skip changes whose recorded result is younger than H hours (they were re-run individually)
        fresh = float(a[a.index('--fresh-hours') + 1]) * 3600 if '--fresh-hours' in a else 0
        for name in sorted(os.listdir(SEEDED)):
            if os.path.exists(os.path.join(SEEDED, name, 'meta.json')):
                rec = os.path.join(SEEDED, name, f'detect_{tier}.json')
                if fresh and os.path.exists(rec) and time.time() - os.path.getmtime(rec) < fresh:
                    continue
                detect(name, tier, checks)
    return 0


if __name__ == '__main__':
    sys.exit(main())
