#!/usr/bin/env python3
"""Audit aid: which functions of srctools does a check execute?

  tools/api_coverage.py C07 [C08 ...]      run the quick tier of each check with the call profiler on (slow), then list
                                           the public functions / methods of the modules the property is anchored in that
                                           were never entered.  Writes scratch/api_coverage/<ID>.json (not evidence).
"""
from __future__ import annotations

import ast
import glob
import json
import os
import subprocess
import sys

VERIF = os.path.dirname(os.path.dirname(os.path.abspath(__file__)))
REPO = os.environ.get('VERIF_REPO', '/repo')


def defs_of(path: str) -> list:
    tree = ast.parse(open(path).read())
    out = []

    def walk(node, prefix):
        for ch in ast.iter_child_nodes(node):
            if isinstance(ch, (ast.FunctionDef, ast.AsyncFunctionDef)):
                if any((isinstance(d, ast.Name) and d.id == 'overload') or (isinstance(d, ast.Attribute) and d.attr == 'overload')
                       for d in ch.decorator_list):
                    continue        # typing stubs are never executed
                line = ch.lineno
                if ch.decorator_list:
                    line = min(d.lineno for d in ch.decorator_list)
                out.append((prefix + ch.name, line, ch.lineno))
                walk(ch, prefix + ch.name + '.<locals>.')
            elif isinstance(ch, ast.ClassDef):
                walk(ch, prefix + ch.name + '.')
            elif isinstance(ch, (ast.If, ast.Try, ast.With)):
                walk(ch, prefix)
    walk(tree, '')
    return out


def main() -> None:
    props = {json.loads(l)['id']: json.loads(l) for l in open(os.path.join(VERIF, 'properties.jsonl'))}
    outdir = os.path.join(VERIF, 'scratch', 'api_coverage')
    os.makedirs(outdir, exist_ok=True)
    for pid in sys.argv[1:]:
        base = f'/dev/shm/funccov-{pid}-{os.getpid()}'
        env = dict(os.environ, VERIF_FUNCCOV=base)
        subprocess.run([os.path.join(VERIF, 'check'), pid], env=env, stdout=subprocess.DEVNULL, stderr=subprocess.DEVNULL)
        seen = set()
        for f in glob.glob(base + '.*'):
            seen |= {(a, b) for a, b, _ in json.load(open(f))}
            os.unlink(f)
        files = [f for f in props[pid]['anchors']['files'] if f.endswith('.py')]
        report = {}
        for rel in files:
            mod = rel.split('srctools/', 1)[1]
            missing = []
            for qual, line, defline in defs_of(os.path.join(REPO, rel)):
                name = qual.rsplit('.', 1)[-1]
                if name.startswith('_') and not (name.startswith('__') and name.endswith('__')):
                    continue
                if '<locals>' in qual:
                    continue
                if (mod, line) not in seen and (mod, defline) not in seen:
                    missing.append(qual)
            report[mod] = missing
        json.dump(report, open(os.path.join(outdir, pid + '.json'), 'w'), indent=1)
        for mod, missing in report.items():
            print(f'{pid} {mod}: {len(missing)} public functions never entered')
            print('   ' + ', '.join(missing))


if __name__ == '__main__':
    main()
