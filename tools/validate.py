#!/opt/veriftools/pyvenv/bin/python
"""Validate MANIFEST.json and every evidence file against the schemas (run with python3-vt)."""
import json, sys, glob, jsonschema
ok = True
man = json.load(open('/verif/MANIFEST.json'))
jsonschema.validate(man, json.load(open('/root/.vp/MANIFEST.schema.json')))
props = [json.loads(l)['id'] for l in open('/verif/properties.jsonl')]
claimed = [c['property_id'] for c in man['checks']]
na = [c['property_id'] for c in man.get('not_applicable', [])]
assert sorted(claimed + na) == sorted(props), (sorted(set(props) - set(claimed + na)), 'unaccounted')
es = json.load(open('/root/.vp/EVIDENCE.schema.json'))
for c in man['checks']:
    try:
        ev = json.load(open('/verif/' + c['evidence_file'].replace('/verif/', '')))
        jsonschema.validate(ev, es)
        assert ev['level'] == c['level_claimed']['category'], (ev['level'], c['level_claimed']['category'])
        print('ok', c['property_id'], ev['tier'], ev['coverage'].get('evaluations'), ev['coverage'].get('states'), ev['wall_s'])
    except FileNotFoundError:
        print('MISSING evidence', c['property_id']); ok = False
    except Exception as e:
        print('INVALID', c['property_id'], str(e)[:300]); ok = False
sys.exit(0 if ok else 1)
