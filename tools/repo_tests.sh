#!/bin/bash
# Run the repository's own tests against a working tree (default /repo), not the wheel in /venv.
# Expected on the pinned tree: 2103 passed, 12 failed (all "Cython module missing"), 21 xfailed.
R="${1:-/repo}"
cd "$R" && PYTHONPATH="$R/src:/verif/shims" /venv/bin/python -m pytest -q -p no:cacheprovider -n 14 tests 2>&1 | tail -${2:-18}
