#!/usr/bin/env python3
"""Print the markdown table of seeded changes and which check caught them (from seeded/*/meta.json, detect_*.json)."""
import glob
import json
import os
import re

VERIF = os.path.dirname(os.path.dirname(os.path.abspath(__file__)))


def first_line(notes: str) -> str:
    for ln in notes.split('\n'):
        ln = ln.strip(' #*-')
        if len(ln) > 25:
            return ln
    return ''


def main() -> None:
    rows = []
    for d in sorted(glob.glob(os.path.join(VERIF, 'seeded', '*'))):
        mp = os.path.join(d, 'meta.json')
        if not os.path.exists(mp):
            continue
        meta = json.load(open(mp))
        name = os.path.basename(d)
        patch = open(os.path.join(d, 'patch.diff')).read()
        files = sorted(set(re.findall(r'^\+\+\+ b/src/srctools/(\S+)', patch, re.M)))
        det = {}
        for tier in ('quick', 'thorough'):
            p = os.path.join(d, f'detect_{tier}.json')
            if os.path.exists(p):
                det[tier] = json.load(open(p))
        q = det.get('quick')
        if q:
            kinds = sorted({k for c in q['checks'].values() for k in c['kinds']})
            verdict = ('caught: ' + ', '.join(kinds[:3])) if q['detected'] else 'MISSED (quick)'
        else:
            verdict = 'not run'
        if q and not q['detected'] and det.get('thorough', {}).get('detected'):
            verdict = 'caught by thorough tier only'
        if meta.get('neutralised_by_fix'):
            verdict = f'no longer breaks the property (repaired defect {meta["neutralised_by_fix"]})'
        if meta.get('not_claimed'):
            verdict = 'not reported - outside the properties as stated (' + meta['history'].split(':', 1)[1].strip()[:150] + ')'
            meta = dict(meta, history='')
        summary = meta.get('summary') or first_line(meta.get('needs_to_manifest', ''))
        if meta.get('history'):
            head = re.sub(r'\s*at first', '', meta['history'].split(';')[0].split(':')[0]).replace('(', '- ').replace(')', '')
            verdict += ' [first run: ' + head.strip() + ']'
        rows.append((name, meta['property'], ', '.join(files), summary[:170].replace('|', '/'), verdict))
    print('| seeded change | property | file | what it needs to manifest | result of `./check <property> --tier quick` |')
    print('|---|---|---|---|---|')
    for r in rows:
        print('| ' + ' | '.join(r) + ' |')
    print(f'\n{len(rows)} seeded changes; {sum(r[4].startswith("caught") for r in rows)} caught by the quick tier; '
          f'{sum("no longer breaks" in r[4] for r in rows)} neutralised by a repair of the unchanged tree; '
          f'{sum(r[4].startswith("not reported") for r in rows)} not reported because it breaks no property as stated.')


if __name__ == '__main__':
    main()
