#!/usr/bin/env python3
"""Regenerate /verif/MANIFEST.json from the table below.  A property is claimed only when its
check module exists under checks/; anything else is listed under not_applicable with the reason."""
import json
import os

VERIF = os.path.dirname(os.path.dirname(os.path.abspath(__file__)))

COMMON_NOTE = ('Decided for the pure-Python implementations imported from /repo/src (no Cython/meson in the sandbox, '
               'so .pyx accelerators cannot be rebuilt or observed). Bounded: silent outside the stated alphabet/depth. ')

# properties whose check is complete enough to be claimed
BUILT = {'C01','C02','C03','C04','C05','C06','C07','C08','C09','C10','C11','C12','C13','C14','C15','C16','C17','C18','C19','C20'}

# id -> (category, technique, text, note, design_ref)
T = {
 'C01': ('exploration', 'bounded exhaustive input enumeration (all trees <= n nodes, all strings <= L in each syntactic role, every Unicode scalar) x serialise/parse configurations against a structural reference',
         'Every Keyvalues tree up to a node bound and every string up to a length bound over the syntax alphabet (plus each Unicode scalar value once per role) is serialised under all option sets and re-parsed from str / chunks / file object; equality is decided by an independent structural comparison. Small-scope exhaustive, so an escaping gap on either write path cannot hide behind the choice of examples.',
         'harness structural comparator; names restricted to the representable set (no line breaks)', '3/C01'),
 'C02': ('exploration', 'bounded exhaustive enumeration of strings (all strings <= L over the escape alphabet, every Unicode scalar value in 5 contexts) through escape_text then the real Tokenizer',
         'escape_text followed by the real tokenizer is run on every string up to the length bound over the escape-relevant alphabet and on every Unicode scalar value in fixed contexts, in both multiline modes and embedded in the line forms of four formats, and short strings again at every real writer call site (each followed by its other-case / other-slash spelling) and in interpreters of their own after each of 12 different first calls of the process; the oracle is exact token equality.',
         'alphabet chosen from the ESCAPES table plus neighbours; strings longer than the bound are not covered', '3/C02'),
 'C03': ('exploration', 'exhaustive enumeration of strings x all 128 option sets x all chunkings (delivery schedules) on the real Tokenizer and Keyvalues.parse',
         'Chunk delivery is the schedule: for every string up to the bound and every option combination, every way of cutting the string into chunks is run on the real tokenizer and compared token-for-token (values, line numbers, errors) with the single-string run; totality and a linear step bound (counted character fetches) are checked on every run. Keyvalues.parse is driven over all short sequences of lexical and line-level items.',
         'alphabet of 24 syntax characters; 5 reduced alphabets for longer strings', '3/C03'),
 'C04': ('exploration', 'exhaustive evaluation over a finite lattice of angles/vectors x the complete operand-type/operator matrix against an independent reference rotation model',
         'Every angle of a 15-degree lattice, a pole-neighbourhood lattice and an irrational lattice is pushed through every operand-type/operator form and compared with reference formulas written independently in the harness; orthonormality, determinant, associativity, matrix<->angle round trip and inverse=transpose are evaluated at each point.',
         'exhaustive on the lattices only; tolerances 1e-12 (construction) / 1e-9 (composition)', '3/C04'),
 'C05': ('model_checking', 'explicit-state breadth-first search over operation histories of real Vec/Angle/Matrix objects with invariants evaluated in every state',
         'States are reached by replaying operation lists on fresh real objects; each transition is one public operation with an argument from a boundary-value menu; the range, frozen-immutability, copy-independence and canonical-text invariants are evaluated in every reachable state up to the depth bound, with deduplication on IEEE bit patterns.',
         'depth bound; argument menu of boundary constants', '3/C05'),
 'C06': ('exploration', 'bounded exhaustive enumeration of maps from a feature lattice (all subsets of <= k features x export/parse options) with export/parse/export fixed-point and an independent object-graph observer',
         'Maps are built through the public API from every subset of up to k atomic features; each is exported, parsed and exported again under every option combination; text fixed point and an observer that never calls export decide the property.',
         'feature lattice limits; interactions of more than k features are not covered', '3/C06'),
 'C07': ('model_checking', 'explicit-state breadth-first search over histories of real VMF/Entity operations; index-vs-scan invariant evaluated in every state',
         'Every operation sequence up to the depth bound over an alphabet of ~40 entity/map operations (mixed-case names, all five mutation paths, cross-map copies, iteration while mutating) is executed on real VMF objects; in every reachable state by_class / by_target / search() are compared with a scan of the entity list.',
         'depth bound; names/classes from a 3-5 symbol alphabet', '3/C07'),
 'C08': ('model_checking', 'explicit-state breadth-first search over allocation/release histories (including explicit garbage-collection steps) with the per-kind uniqueness invariant and its inductive half (every ID held in the map is marked used in its allocator) in every state; every short history on maps that start with 1100+ consecutive IDs',
         'Histories of creations with desired IDs, copies, removals, explicit handle drops + gc, parses of documents with colliding IDs and fixup edits are enumerated to a depth bound on real objects; in every state IDs of objects in the map are pairwise distinct positive ints per kind.',
         'depth bound (full alphabet, plus a 12-operation core alphabet one level deeper); GC made an explicit operation', '3/C08'),
 'C09': ('exploration', 'exhaustive enumeration of generated objects x every single in-place mutation of every reachable mutable sub-object on either side of a copy',
         'For every generated object the copy must export identically (modulo IDs) and share no mutable object with its source; then each reachable mutable sub-object is mutated once, on each side, and the other side must export byte-identically.',
         'generic object walker; one mutation step after the copy', '3/C09'),
 'C10': ('model_checking', 'explicit-state search over the lattice of lump-view access histories on real BSP objects (state = set of parsed views), save/re-read oracle in every state',
         'Transitions are reads of the lazily parsed views; every subset/order reachable within the bound is followed by save, re-read and comparison (raw lumps byte-identical, structured lumps equal under an independent observer, second save identical).',
         'sample BSP plus synthesised BSPs built by an independent encoder', '3/C10'),
 'C11': ('exploration', 'deviation-bounded exhaustive enumeration of lump contents (base record + every <= d fields at boundary values) x BSP versions through the real writer and reader',
         'For each structured lump, lists of records with every choice of <= d fields at on-disk boundary values are assigned, saved and re-read; equality under an independent observer, and out-of-range values must raise instead of truncating.',
         'float32-representable values; deviation bound d', '3/C11'),
 'C12': ('fault_enumeration', 'exhaustive crash-point, single-fault and two-writer interleaving enumeration over the intercepted file-system operations of the real AtomicWriter / BSP.save',
         'Every prefix of the operation log (kill), every single injected OSError at every operation, body exceptions at every write, and all interleavings of two writers under a baton scheduler are explored on a real tmpfs directory; destination is old or new, never a mixture, and no temp file survives a handled failure.',
         'process-kill crash model (page cache survives); operations intercepted at io.open / os.mkdir, replace, unlink, rename, remove, open, fsync; the all-interleavings pass has a ceiling of 20000 schedules per configuration (largest on the current tree: 6410), above which the 2-preemption pass is completed and the cap reported', '3/C12'),
 'C13': ('model_checking', 'explicit-state breadth-first search over VPK operation histories x archive configurations against a dict reference model and an independent directory decoder',
         'Every history up to the depth bound of add/overwrite/delete/write_dirfile/reopen on real VPK files is compared after each reopen with a dict model (names, bytes, CRC verification) and an independent decoder of the directory tree.',
         'depth bound; size menu crossing the preload limit and 64 KiB', '3/C13'),
 'C14': ('exploration', 'bounded exhaustive enumeration of element graphs (all multigraphs on <= 3 elements), value types and names x encodings/versions with a graph-isomorphism oracle',
         'All small element graphs (sharing, cycles, NULL, stubs), every value type as scalar and array, and names needing escapes are exported in every binary version and text layout and re-parsed; an isomorphism walk from the roots decides equality.',
         'graph size bound; deviation bound 2', '3/C14'),
 'C15': ('exploration', 'bounded exhaustive enumeration of texture configurations (sizes, frames, depth, cubemap, version, format, resources) through the real save/read with independent quantisation reference',
         'All power-of-two sizes up to the bound x layouts x versions x writable formats are saved and re-read; metadata exact, pixels exact or equal to an independently written quantisation; every boundary pixel index is probed for bounds checking.',
         'pure-Python codecs (DXT save is Cython-only)', '3/C15'),
 'C16': ('model_checking', 'explicit-state exploration of the lazy-load state machine (all ordered pairs of block loads) plus exhaustive export/parse of every definition in the shipped database and of a generated feature lattice',
         'The complete bundled database and all generated FGDs within the deviation bound go through text and binary round trips; the lazily parsed engine database is explored as a state machine over block loads (every single block, every ordered pair) and compared with a full load in every state.',
         'feature lattice limits; pairs of block loads', '3/C16'),
 'C17': ('model_checking', 'bounded exhaustive enumeration of templates x placements (differential geometric oracle) and BFS over collapse histories on shared templates',
         'Results of collapsing at a placement are compared with the harness-transformed result of the identity placement for all generated templates and placements; histories of repeated/interleaved collapses check template immutability in every state; cyclic instance graphs are explored under a step horizon.',
         'placement lattice; history depth bound', '3/C17'),
 'C18': ('exploration', 'exhaustive enumeration of path strings (<= 4 segments over an escape-relevant alphabet x separators x prefixes) against a real on-disk fixture with sentinels',
         'Every path of up to 4 segments built from .., ., separators, absolute prefixes, in-root names and sibling/ancestor names is tried with every operation on a constrained filesystem over a real tmpfs fixture; anything returned must live inside the root and no outside sentinel may be read.',
         'tmpfs fixture; segment alphabet', '3/C18'),
 'C19': ('exploration', 'exhaustive differential enumeration of file sets (<= 3 names) x query spellings x folders x chain orders across the four backends against a dict reference model',
         'All small file sets are materialised in the virtual, zip, VPK and directory backends; every spelling of every name and folder is queried and compared with a dict model; chains of every order/priority/prefix are compared with first-member-wins.',
         'name alphabet of 8; chains <= 3/4 members', '3/C19'),
 'C20': ('exploration', 'deviation-bounded exhaustive enumeration of values per format through the real writer and reader (read(write(x)) == x and write fixed point)',
         'For each secondary format a generator enumerates all values within a deviation bound from a base value over the representable alphabet; the real writer and reader are composed and compared with a per-format observer, and the second-generation output must be byte-identical.',
         'per-format representability rules stated in the check', '3/C20'),
}


def main() -> None:
    checks = []
    na = []
    for pid in sorted(T):
        cat, tech, text, note, ref = T[pid]
        if pid in BUILT and os.path.exists(os.path.join(VERIF, 'checks', pid.lower() + '.py')):
            checks.append({
                'property_id': pid,
                'quick_cmd': f'./check {pid} --tier quick',
                'thorough_cmd': f'./check {pid} --tier thorough',
                'evidence_file': f'evidence/{pid}.json',
                'replay_cmd_template': f'./check {pid} --replay {{path}}',
                'engine': 'mcv',
                'level_claimed': {'category': cat, 'text': text, 'design_ref': 'DESIGN.md section ' + ref},
                'level_note': COMMON_NOTE + note,
                'technique': tech,
            })
        else:
            na.append({'property_id': pid, 'reason': 'check not built yet (work in progress; planned technique: ' + tech + ')'})
    man = {
        'version': 1,
        'setup_cmd': 'cd /verif && ./setup.sh',
        'hooks': {
            'guard': 'SRCTOOLS_VERIF',
            'enable': 'no source hooks are needed: checks import /repo/src directly (PYTHONPATH=/repo/src:/verif/shims) and intercept io/os functions from the harness process; ./check exports SRCTOOLS_VERIF=1 for uniformity',
            'baseline_off_cmd': 'cd /repo && /venv/bin/python -m pytest -ra -q -p no:cacheprovider --timeout=900 --continue-on-collection-errors',
            'source_commits': [],
            'add_only': True,
        },
        'engines': [{
            'name': 'mcv',
            'path': 'mcv/',
            'serves_properties': [c['property_id'] for c in checks],
            'kind_free_text': 'hand-written explicit-state / bounded-exhaustive explorer for Python: replay-based BFS over operation histories of real objects, exhaustive input/chunking enumerators, file-system operation interposer with crash-prefix, fault and interleaving enumeration; fork pool over 16 cores',
        }],
        'checks': checks,
        'not_applicable': na,
        'notes': 'See DESIGN.md. known_findings.json lists recorded defects and fix: commits. Repository tests against the working tree: tools/repo_tests.sh.',
    }
    with open(os.path.join(VERIF, 'MANIFEST.json'), 'w') as f:
        json.dump(man, f, indent=1)
        f.write('\n')
    print('claimed', [c['property_id'] for c in checks], 'not yet', [n['property_id'] for n in na])


if __name__ == '__main__':
    main()
